//! C13: out-of-vocabulary candidates follow the character-class definition.
//!
//! Four kinds of case lines (all answered by the Lean model from the same line):
//!   buf   text + char.def                  -> classes, run lengths, word-start flags, fallback lengths
//!   prov  one provider + queries           -> nodes returned by `provide_oov` for (offset, created mask, existing ends)
//!   lat   provider stack + lexicon + text  -> every lattice node per begin position after `do_tokenize`
//!   info  an OOV morpheme of a `lat` case  -> what the morpheme reports
//! Independently of the model, naive oracles recompute runs (left to right), candidate sets (from the
//! *structured* definitions the generator wrote the files from) and the OOV morpheme fields.
use crate::common::*;
use crate::dict::*;
use std::collections::BTreeSet;
use sudachi::analysis::created::CreatedWords;
use sudachi::analysis::node::{LatticeNode, RightId};
use sudachi::analysis::stateful_tokenizer::StatefulTokenizer;
use sudachi::analysis::stateless_tokenizer::DictionaryAccess;
use sudachi::analysis::{Mode, Node};
use sudachi::dic::dictionary::JapaneseDictionary;
use sudachi::dic::word_id::WordId;
use sudachi::input_text::{InputBuffer, InputTextIndex};
use sudachi::prelude::*;
use std::sync::{Arc, Mutex};
use sudachi::dic::grammar::Grammar;
use sudachi::dic::lexicon_set::LexiconSet;
use sudachi::plugin::input_text::InputTextPlugin;
use sudachi::plugin::oov::OovProviderPlugin;
use sudachi::plugin::path_rewrite::PathRewritePlugin;

const NOBOW: u32 = 1 << 30;
const NOBOW2: u32 = 1 << 31;
const ALLM: u32 = 0x3fff_ffff;
const DEFAULT: u32 = 1;

const NAMED: &[(&str, u32)] = &[
    ("DEFAULT", 1), ("SPACE", 2), ("KANJI", 4), ("SYMBOL", 8), ("NUMERIC", 16), ("ALPHA", 32),
    ("HIRAGANA", 64), ("KATAKANA", 128), ("KANJINUMERIC", 256), ("GREEK", 512), ("CYRILLIC", 1024),
    ("USER1", 2048), ("USER2", 4096), ("USER3", 8192), ("USER4", 16384),
    ("NOOOVBOW", NOBOW), ("NOOOVBOW2", NOBOW2), ("ALL", ALLM),
];
/// classes the generator assigns to ordinary characters
const PLAIN: &[u32] = &[4, 8, 16, 32, 64, 128, 512, 1024, 2048];

/// code points of 1, 2, 3 and 4 UTF-8 bytes; all are fixed points of the default input-text plugin
const MASTER: &[char] = &[
    'a', 'b', 'c', 'é', 'Ω', 'я', '1', '2', 'あ', 'い', 'ア', 'イ', '漢', '字', ' ', '。', '\u{301}', '\u{200d}',
    '\u{fe0f}', '👍', '🏻', '𠮷',
];
/// characters the default input-text plugin rewrites (to 'a', 'b', 'ア', 'a')
pub(crate) const NORMALISED: &[char] = &['Ａ', 'Ｂ', 'ｱ', 'A'];

fn name_of(bit: u32) -> &'static str {
    NAMED.iter().find(|x| x.1 == bit).map(|x| x.0).unwrap()
}

/// names whose union is `mask` (ALL, NOOOVBOW, NOOOVBOW2 and single bits)
fn names_of(mask: u32) -> Vec<&'static str> {
    let mut out = vec![];
    let mut m = mask;
    if m & ALLM == ALLM {
        out.push("ALL");
        m &= !ALLM;
    }
    for &(n, v) in NAMED.iter().take(17) {
        if m & v != 0 {
            out.push(n);
        }
    }
    out
}

#[derive(Clone, Debug)]
pub(crate) struct Info {
    pub(crate) cat: u32,
    pub(crate) invoke: bool,
    pub(crate) group: bool,
    pub(crate) length: u32,
}

#[derive(Clone, Debug)]
pub(crate) struct Unk {
    pub(crate) cat: u32,
    pub(crate) l: u16,
    pub(crate) r: u16,
    pub(crate) cost: i16,
    pub(crate) pos: usize,
}

#[derive(Clone, Debug, Default)]
pub(crate) struct Defs {
    pub(crate) pool: Vec<char>,
    pub(crate) assign: Vec<(char, u32)>,
    pub(crate) char_def: String,
    pub(crate) infos: Vec<Info>,
    pub(crate) unks: Vec<Unk>,
    pub(crate) unk_def: String,
    /// the generator broke one of the files on purpose
    pub(crate) broken: bool,
    /// the definition MUST be rejected by `set_up` (a malformed line written on purpose)
    pub(crate) must_fail: bool,
    /// how the MeCab plugin finds its files: 0 = `charDef`/`unkDef` name the default files, 1 = both keys omitted
    /// (defaults `char.def`/`unk.def`), 2 = other file names (`char2.def`/`unk2.def`; the default-named unk.def is empty)
    pub(crate) files: u8,
    /// behaviour lines the MeCab plugin reads when they are NOT in the grammar's char.def (`files == 2`)
    pub(crate) mecab_def: Option<String>,
    /// connection-matrix shape of the dictionary the case is loaded with (default: square, `N_IDS`)
    pub(crate) dims: Option<(usize, usize)>,
    /// which malformed line was written (distribution counter)
    pub(crate) note: String,
    /// unk.def as BYTES when it is not valid UTF-8 (otherwise `unk_def`)
    pub(crate) unk_raw: Option<Vec<u8>>,
}

impl Defs {
    fn unk_bytes(&self) -> Vec<u8> {
        match &self.unk_raw { Some(b) => b.clone(), None => self.unk_def.as_bytes().to_vec() }
    }
}

impl Defs {
    fn cat_of(&self, c: char) -> u32 {
        let m = self.assign.iter().filter(|x| x.0 == c).fold(0, |a, x| a | x.1);
        if m == 0 { DEFAULT } else { m }
    }
}

#[derive(Clone, Debug)]
pub(crate) struct SimpleP {
    pub(crate) l: u16,
    pub(crate) r: u16,
    pub(crate) cost: i16,
    pub(crate) pos: usize,
}

#[derive(Clone, Debug)]
pub(crate) struct AltP {
    pub(crate) set: Vec<char>,
    pub(crate) min: usize,
    pub(crate) max: Option<usize>,
}

#[derive(Clone, Debug)]
pub(crate) struct RegexP {
    pub(crate) l: u16,
    pub(crate) r: u16,
    pub(crate) cost: i16,
    pub(crate) pos: usize,
    pub(crate) alts: Vec<AltP>,
    pub(crate) max_length: usize,
    pub(crate) strict: bool,
}

#[derive(Clone, Debug)]
pub(crate) enum Prov {
    M,
    S,
    R,
}

pub(crate) const N_IDS: usize = 6;

fn pos_json(p: usize) -> String {
    format!("[{}]", join(POS[p].iter().map(|s| format!("\"{}\"", s)), ","))
}

pub(crate) fn mecab_json() -> String {
    r#"{"class":"com.worksap.nlp.sudachi.MeCabOovPlugin","charDef":"char.def","unkDef":"unk.def"}"#.to_string()
}

/// the three shapes of the plugin settings (see `Defs::files`)
fn mecab_json_of(d: &Defs) -> String {
    match d.files {
        1 => r#"{"class":"com.worksap.nlp.sudachi.MeCabOovPlugin"}"#.to_string(),
        2 => r#"{"class":"com.worksap.nlp.sudachi.MeCabOovPlugin","charDef":"char2.def","unkDef":"unk2.def"}"#.to_string(),
        _ => mecab_json(),
    }
}

/// the text `read_character_property` is given
fn mecab_def_text(d: &Defs) -> &str {
    match (&d.mecab_def, d.files) {
        (Some(t), 2) => t.as_str(),
        _ => d.char_def.as_str(),
    }
}

pub(crate) fn simple_json(p: &SimpleP) -> String {
    format!(
        r#"{{"class":"com.worksap.nlp.sudachi.SimpleOovPlugin","oovPOS":{},"leftId":{},"rightId":{},"cost":{}}}"#,
        pos_json(p.pos), p.l, p.r, p.cost
    )
}

fn regex_text(alts: &[AltP]) -> String {
    alts.iter()
        .map(|a| {
            let set: String = a.set.iter().map(|c| format!("\\x{{{:X}}}", *c as u32)).collect();
            match a.max {
                Some(m) => format!("[{}]{{{},{}}}", set, a.min, m),
                None => format!("[{}]{{{},}}", set, a.min),
            }
        })
        .collect::<Vec<_>>()
        .join("|")
}

pub(crate) fn regex_json(p: &RegexP) -> String {
    format!(
        r#"{{"class":"com.worksap.nlp.sudachi.RegexOovProvider","oovPOS":{},"leftId":{},"rightId":{},"cost":{},"regex":"{}","maxLength":{},"boundaries":"{}"}}"#,
        pos_json(p.pos), p.l, p.r, p.cost, regex_text(&p.alts).replace('\\', "\\\\"), p.max_length,
        if p.strict { "strict" } else { "relaxed" }
    )
}

pub(crate) fn small_id(rng: &mut Rng) -> u16 {
    rng.below(N_IDS) as u16
}

fn small_cost(rng: &mut Rng) -> i16 {
    if rng.chance(1, 10) { *rng.pick(&[i16::MAX, i16::MIN, -1, 0]) } else { rng.below(9000) as i16 - 500 }
}

pub(crate) fn gen_defs(rng: &mut Rng, with_norm: bool, edge_ids: bool) -> Defs {
    let mut d = Defs::default();
    let k = rng.range(2, 4);
    let mut classes: Vec<u32> = vec![];
    while classes.len() < k {
        let c = *rng.pick(PLAIN);
        if !classes.contains(&c) { classes.push(c); }
    }
    let npool = rng.range(3, 9);
    while d.pool.len() < npool {
        let c = *rng.pick(MASTER);
        if !d.pool.contains(&c) { d.pool.push(c); }
    }
    // character ranges of the grammar's table
    let pool = d.pool.clone();
    for &c in &pool {
        let roll = rng.below(100);
        let mask: u32 = if roll < 50 {
            *rng.pick(&classes)
        } else if roll < 65 {
            *rng.pick(&classes) | *rng.pick(&classes)
        } else if roll < 70 {
            classes.iter().fold(0, |a, b| a | b)
        } else if roll < 80 {
            ALLM | NOBOW
        } else if roll < 85 {
            ALLM | NOBOW2
        } else if roll < 89 {
            ALLM
        } else if roll < 93 {
            *rng.pick(&classes) | NOBOW
        } else if roll < 95 {
            *rng.pick(&classes) | NOBOW2
        } else {
            0
        };
        if mask == 0 { continue; }
        let names = names_of(mask);
        if names.len() >= 2 && rng.chance(1, 3) {
            // the union is spread over two lines
            let cut = rng.range(1, names.len() - 1);
            d.char_def.push_str(&format!("0x{:04X} {}\n", c as u32, names[..cut].join(" ")));
            d.char_def.push_str(&format!("0x{:X}..0x{:X} {} # c\n", c as u32, c as u32, names[cut..].join("\t")));
        } else {
            d.char_def.push_str(&format!("0x{:04X} {}\n", c as u32, names.join(" ")));
        }
        d.assign.push((c, mask));
    }
    if with_norm {
        // classes of the characters the input-text plugin produces
        for &(c, m) in &[('a', 32u32), ('b', 32), ('ア', 128)] {
            if !d.assign.iter().any(|x| x.0 == c) && rng.chance(2, 3) {
                d.char_def.push_str(&format!("0x{:04X} {}\n", c as u32, names_of(m).join(" ")));
                d.assign.push((c, m));
            }
        }
    }
    // class behaviour for the MeCab provider
    let mut keys: Vec<u32> = classes.clone();
    keys.push(DEFAULT);
    if rng.chance(1, 3) { keys.push(ALLM); }
    if rng.chance(1, 8) { keys.push(NOBOW); }
    if rng.chance(1, 6) { keys.push(*rng.pick(PLAIN)); keys.dedup(); }
    let mut seen: Vec<u32> = vec![];
    for &key in &keys {
        if seen.contains(&key) { continue; }
        seen.push(key);
        if rng.chance(1, 6) { continue; }
        let info = Info {
            cat: key,
            invoke: rng.chance(1, 2),
            group: rng.chance(1, 2),
            length: if rng.chance(1, 12) { rng.range(60, 80) as u32 } else { rng.below(5) as u32 },
        };
        d.char_def.push_str(&format!("{} {} {} {}{}\n", name_of(key), info.invoke as u8, info.group as u8, info.length,
            if rng.chance(1, 4) { " # comment" } else { "" }));
        d.infos.push(info);
    }
    if rng.chance(1, 10) { d.char_def.push_str("# trailing comment\n\n"); }
    let mut edge = false;
    for info in d.infos.clone() {
        let nlines = if rng.chance(1, 7) { 0 } else { rng.range(1, 3) };
        for _ in 0..nlines {
            let u = Unk {
                cat: info.cat,
                l: if edge_ids && rng.chance(1, 40) { edge = true; N_IDS as u16 } else { small_id(rng) },
                r: small_id(rng),
                cost: small_cost(rng),
                pos: rng.below(POS.len()),
            };
            d.unks.push(u);
        }
    }
    // lines of different classes interleaved, as in the shipped unk.def
    if rng.chance(1, 2) {
        let n = d.unks.len();
        for i in (1..n).rev() {
            let j = rng.below(i + 1);
            d.unks.swap(i, j);
        }
    }
    for u in &d.unks {
        d.unk_def.push_str(&format!("{},{},{},{},{}\n", name_of(u.cat), u.l, u.r, u.cost, POS[u.pos].join(",")));
        if rng.chance(1, 15) { d.unk_def.push_str("# comment\n"); }
    }
    // an id equal to the matrix dimension is rejected once D15b is repaired (`>=`)
    if edge && source_unk_ge() { d.broken = true; }
    if rng.chance(1, 40) {
        d.broken = true;
        match rng.below(4) {
            0 => d.unk_def.push_str("USER4,0,0,0,名詞,普通名詞,一般,*,*,*\n"), // class without behaviour line
            1 => d.unk_def.push_str(&format!("DEFAULT,{},0,0,名詞,普通名詞,一般,*,*,*\n", N_IDS + 1)),
            2 => d.char_def.push_str("USER3 1 1\n"),
            _ => d.unk_def.push_str("DEFAULT,0,0,0,名詞,存在しない,一般,*,*,*\n"),
        }
        if !d.infos.iter().any(|i| i.cat == DEFAULT) && !d.unk_def.contains("USER4") && !d.char_def.contains("USER3 1 1") {
            // the broken line refers to DEFAULT, which must be declared for the intended error to be the first one
            d.char_def.push_str("DEFAULT 0 1 0\n");
            d.infos.push(Info { cat: DEFAULT, invoke: false, group: true, length: 0 });
        }
    }
    d
}

pub(crate) fn gen_text(rng: &mut Rng, pool: &[char], extra: &[char]) -> String {
    let long = rng.chance(1, 12);
    let n = if long { rng.range(60, 140) } else { rng.range(1, 10) };
    let sub: Vec<char> = if long {
        (0..rng.range(1, 3)).map(|_| *rng.pick(pool)).collect()
    } else {
        let mut v = pool.to_vec();
        v.extend_from_slice(extra);
        v
    };
    (0..n).map(|_| *rng.pick(&sub)).collect()
}

fn gen_simple(rng: &mut Rng) -> SimpleP {
    SimpleP { l: small_id(rng), r: small_id(rng), cost: small_cost(rng), pos: rng.below(POS.len()) }
}

fn gen_regex(rng: &mut Rng, pool: &[char], allow_empty: bool) -> RegexP {
    let nalt = if rng.chance(1, 5) { 2 } else { 1 };
    let alts = (0..nalt)
        .map(|_| {
            let mut set: Vec<char> = vec![];
            for _ in 0..rng.range(1, 4) {
                let c = *rng.pick(pool);
                if !set.contains(&c) { set.push(c); }
            }
            let min = if allow_empty && rng.chance(1, 25) { 0 } else if rng.chance(1, 6) { 2 } else { 1 };
            let max = if rng.chance(1, 2) { None } else { Some(min + *rng.pick(&[0usize, 1, 2, 4, 60, 61, 62, 63, 64, 70])) };
            AltP { set, min, max }
        })
        .collect();
    RegexP {
        l: small_id(rng), r: small_id(rng), cost: small_cost(rng), pos: rng.below(POS.len()), alts,
        max_length: *rng.pick(&[32usize, 32, 32, 0, 1, 3, 64, 200]),
        strict: rng.chance(1, 2),
    }
}

// ---------------------------------------------------------------------------------------------
// naive reference computations (the property's own oracle)

/// runs determined left to right from the start of the text: distance to the end of the run
fn spec_runs(cats: &[u32]) -> Vec<usize> {
    let n = cats.len();
    let mut out = vec![0; n];
    let mut s = 0;
    while s < n {
        let mut e = s + 1;
        while e < n && cats[s..=e].iter().fold(u32::MAX, |a, b| a & b) != 0 {
            e += 1;
        }
        for i in s..e {
            out[i] = e - i;
        }
        s = e;
    }
    out
}

/// the known-defective back-to-front computation (D11) — used ONLY to label a failure, never to pass one
fn d11_reference(cats: &[u32]) -> Vec<usize> {
    let n = cats.len();
    let mut out = vec![1; n];
    if n == 0 { return out; }
    let mut cat = cats[n - 1];
    for i in (0..n - 1).rev() {
        let common = cats[i] & cat;
        if common != 0 { out[i] = out[i + 1] + 1; cat = common; } else { cat = cats[i]; }
    }
    out
}

fn run_starts(cont: &[usize]) -> Vec<usize> {
    (0..cont.len()).filter(|&i| i == 0 || cont[i - 1] == 1).collect()
}

type Cand = (usize, usize, u16, u16, i16, usize);

fn expect_mecab(d: &Defs, cats: &[u32], runs: &[usize], off: usize, nothing_yet: bool) -> BTreeSet<Cand> {
    let n = cats.len();
    let mut out = BTreeSet::new();
    let run = runs[off];
    for info in &d.infos {
        if cats[off] & info.cat != info.cat { continue; }
        if !(info.invoke || nothing_yet) { continue; }
        for u in d.unks.iter().filter(|u| u.cat == info.cat) {
            if info.group {
                out.insert((off, off + run, u.l, u.r, u.cost, u.pos));
            }
            for len in 1..=(info.length as usize).min(n) {
                if len <= run && off + len <= n {
                    out.insert((off, off + len, u.l, u.r, u.cost, u.pos));
                }
            }
        }
    }
    out
}

/// how often the definition prescribes each candidate: once per (behaviour line of a class of the character, unknown-word
/// line of that class, shape), the shapes being the grouped candidate and the lengths 1..n that fit the budget and the text
fn expect_mecab_counts(d: &Defs, cats: &[u32], runs: &[usize], off: usize, nothing_yet: bool) -> std::collections::BTreeMap<Cand, usize> {
    let n = cats.len();
    let mut out = std::collections::BTreeMap::new();
    let run = runs[off];
    for info in &d.infos {
        if cats[off] & info.cat != info.cat { continue; }
        if !(info.invoke || nothing_yet) { continue; }
        for u in d.unks.iter().filter(|u| u.cat == info.cat) {
            if info.group { *out.entry((off, off + run, u.l, u.r, u.cost, u.pos)).or_insert(0) += 1; }
            let budget = if info.group { run - 1 } else { run };
            for len in 1..=(info.length as usize).min(n) {
                if len <= budget && off + len <= n { *out.entry((off, off + len, u.l, u.r, u.cost, u.pos)).or_insert(0) += 1; }
            }
        }
    }
    out
}

fn expect_simple(p: &SimpleP, bow: &[bool], off: usize, nothing_yet: bool) -> BTreeSet<Cand> {
    let mut out = BTreeSet::new();
    if nothing_yet {
        let n = bow.len();
        let mut e = off + 1;
        while e < n && !bow[e] { e += 1; }
        out.insert((off, e, p.l, p.r, p.cost, p.pos));
    }
    out
}

/// `has` = "a word of this length already exists at the position"
fn expect_regex(p: &RegexP, chars: &[char], runs: &[usize], off: usize, has: &dyn Fn(usize) -> bool) -> BTreeSet<Cand> {
    let mut out = BTreeSet::new();
    let n = chars.len();
    if p.strict && off > 0 && runs[off - 1] > 1 {
        return out; // inside a run
    }
    let stop = n.min(off + p.max_length);
    let slice = &chars[off..stop];
    for a in &p.alts {
        let mut k = 0;
        while k < slice.len() && a.max.map_or(true, |m| k < m) && a.set.contains(&slice[k]) { k += 1; }
        if k >= a.min {
            if k > 0 && !has(k) {
                out.insert((off, off + k, p.l, p.r, p.cost, p.pos));
            }
            break;
        }
    }
    out
}

// ---------------------------------------------------------------------------------------------

pub(crate) struct Ctx {
    pub(crate) wd: Workdir,
    pub(crate) system: Vec<u8>,
    pub(crate) poslist_hex: String,
}

pub(crate) fn fixed_rows() -> Vec<Row> {
    (0..POS.len()).map(|p| Row::simple(&format!("ん{}", p), (p % N_IDS) as i32, (p % N_IDS) as i32, 100, p)).collect()
}

fn build_dic(rows: &[Row], rng_seed: u64) -> Vec<u8> {
    let mut rng = Rng::new(rng_seed);
    let m = Matrix::random(&mut rng, N_IDS, N_IDS, false);
    build_system(csv_of(rows, &default_pos()).as_bytes(), m.text().as_bytes()).expect("system dictionary")
}

/// a system dictionary with a NON-square connection matrix (`nl` left ids, `nr` right ids); built once per shape
fn system_with_dims(nl: usize, nr: usize) -> Vec<u8> {
    static CACHE: std::sync::OnceLock<Mutex<std::collections::HashMap<(usize, usize), Vec<u8>>>> = std::sync::OnceLock::new();
    let m = CACHE.get_or_init(|| Mutex::new(std::collections::HashMap::new()));
    let mut g = m.lock().unwrap_or_else(|e| e.into_inner());
    g.entry((nl, nr)).or_insert_with(|| {
        let k = nl.min(nr);
        let rows: Vec<Row> = (0..POS.len()).map(|p| Row::simple(&format!("ん{}", p), (p % k) as i32, (p % k) as i32, 100, p)).collect();
        let mut rng = Rng::new(77);
        let mx = Matrix::random(&mut rng, nl, nr, false);
        build_system(csv_of(&rows, &default_pos()).as_bytes(), mx.text().as_bytes()).expect("non-square system dictionary")
    }).clone()
}

fn system_of(ctx: &Ctx, d: &Defs) -> Vec<u8> {
    match d.dims {
        Some((nl, nr)) => system_with_dims(nl, nr),
        None => ctx.system.clone(),
    }
}

fn load_with(ctx: &Ctx, d: &Defs, system: Vec<u8>, input: &[String], oov: &[String]) -> Result<JapaneseDictionary, String> {
    ctx.wd.write("char.def", &d.char_def);
    if d.files == 2 {
        ctx.wd.write("char2.def", mecab_def_text(d));
        std::fs::write(ctx.wd.path.join("unk2.def"), d.unk_bytes()).unwrap();
        ctx.wd.write("unk.def", "");
    } else {
        std::fs::write(ctx.wd.path.join("unk.def"), d.unk_bytes()).unwrap();
    }
    load(&config_json(&ctx.wd, input, oov, &[], &[]), system, vec![])
}

fn build_input(dic: &JapaneseDictionary, text: &str) -> Result<InputBuffer, String> {
    catch(|| {
        let mut ib = InputBuffer::from(text);
        for p in dic.input_text_plugins() {
            p.rewrite(&mut ib).expect("rewrite");
        }
        ib.build(dic.grammar()).expect("build");
        ib
    })
}

// ---------------------------------------------------------------------------------------------
// RECYCLED objects.  The property quantifies over texts: what an `InputBuffer` (or the tokenizer + result list pair, which
// swap two buffers) held BEFORE the text of the case must not show in classes, run lengths, word starts, fallback lengths or
// candidates.  About a third of the generated cases therefore run on objects that analysed 1-3 earlier texts of other
// lengths and character widths; the oracles (everything recomputed from the definition files) are the same as on new objects.

/// earlier texts of a recycled object (empty = new objects); `collect[k]`: the result of earlier text `k` was moved into the
/// (one) `MorphemeList`, i.e. tokenizer and list swapped their two buffers after it
#[derive(Clone, Debug, Default)]
pub(crate) struct Hist {
    pub(crate) texts: Vec<String>,
    pub(crate) collect: Vec<bool>,
}

thread_local! {
    static HIST: std::cell::RefCell<Hist> = std::cell::RefCell::new(Hist::default());
}

fn set_hist(h: Hist) { HIST.with(|c| *c.borrow_mut() = h); }
fn cur_hist() -> Hist { HIST.with(|c| c.borrow().clone()) }

/// ` hist=<text>;<text>` (code points, `e` = the empty text, a trailing `*` = result collected); nothing for new objects
fn hist_token(h: &Hist) -> String {
    if h.texts.is_empty() { return String::new(); }
    format!(" hist={}", join(h.texts.iter().enumerate().map(|(k, t)| format!("{}{}",
        if t.is_empty() { "e".to_string() } else { join(t.chars().map(|c| c as u32), ",") },
        if h.collect.get(k).copied().unwrap_or(false) { "*" } else { "" })), ";"))
}

fn hist_words(h: &Hist) -> String {
    if h.texts.is_empty() { String::new() } else { format!(" [RECYCLED objects, earlier texts {:?}, results collected {:?}]", h.texts, h.collect) }
}

/// one-byte / two-byte characters that no generated char.def mentions (class DEFAULT: a word start at every character)
const FILL1: &[char] = &['#', '%', '&', '3', '4', '5', '6', '7', '8', '9'];
const FILL2: &[char] = &['ñ', 'ö', 'ü', 'Ж'];

/// 1-3 earlier texts chosen against `text`: other lengths, other character widths, so that character starts (word starts)
/// of the earlier text lie at byte offsets INSIDE the multi-byte characters of `text`, and tables longer and shorter than
/// the ones `text` needs
pub(crate) fn gen_hist(rng: &mut Rng, pool: &[char], text: &str) -> Hist {
    let mut h = Hist::default();
    let bytes = text.len();
    for _ in 0..rng.range(1, 3) {
        let t: String = match rng.below(10) {
            // one-byte characters over the whole byte length of the text (and a little more / less)
            0 | 1 | 2 | 3 => { let n = (bytes + rng.below(4)).saturating_sub(rng.below(2)).max(1); (0..n).map(|_| *rng.pick(FILL1)).collect() }
            // two-byte characters: a word start at every other byte
            4 => { let n = bytes / 2 + rng.range(1, 2); let odd = rng.chance(1, 2); let mut s: String = if odd { "#".into() } else { String::new() }; s.extend((0..n).map(|_| *rng.pick(FILL2))); s }
            // the same characters one byte further
            5 => format!("{}{}", rng.pick(FILL1), text),
            // the text without its first character / another text over the same pool
            6 => text.chars().skip(1).collect(),
            7 | 8 => { let n = rng.range(1, 12); (0..n).map(|_| *rng.pick(pool)).collect() }
            _ => String::new(),
        };
        h.texts.push(t);
        h.collect.push(rng.chance(2, 3));
    }
    h
}

/// the buffer of the case: new, or one `InputBuffer` that held the earlier texts (reset + rewrite + build each) before `text`
fn build_input_hist(dic: &JapaneseDictionary, hist: &Hist, text: &str) -> Result<InputBuffer, String> {
    if hist.texts.is_empty() { return build_input(dic, text); }
    catch(|| {
        let mut ib = InputBuffer::new();
        for t in hist.texts.iter().map(|s| s.as_str()).chain(std::iter::once(text)) {
            ib.reset().push_str(t);
            ib.start_build().expect("start_build");
            for p in dic.input_text_plugins() {
                p.rewrite(&mut ib).expect("rewrite");
            }
            ib.build(dic.grammar()).expect("build");
        }
        ib
    })
}

fn created_of(mask: u64) -> CreatedWords {
    let mut c = CreatedWords::empty();
    for b in 0..64 {
        if mask >> b & 1 == 1 { c = c.add_word((b + 1) as i64); }
    }
    c
}

fn buffer_source() -> String {
    let toml = std::fs::read_to_string(format!("{}/harness/Cargo.toml", std::env::var("VERIF_ROOT").unwrap_or_else(|_| "/verif".into()))).unwrap_or_default();
    let dir = toml.lines().find_map(|l| {
        let l = l.trim();
        if l.starts_with("sudachi") && l.contains("path") {
            l.split("path").nth(1).and_then(|r| r.split('"').nth(1)).map(|x| x.to_string())
        } else { None }
    }).unwrap_or_else(|| "/repo/sudachi".to_string());
    std::fs::read_to_string(format!("{}/src/input_text/buffer/mod.rs", dir)).unwrap_or_default()
}

/// does `InputBuffer::build` let a banned NOOOVBOW2 character ban its successor too (repaired code)?
pub(crate) fn source_chains_bow_ban() -> bool {
    static P: std::sync::OnceLock<bool> = std::sync::OnceLock::new();
    *P.get_or_init(|| buffer_source().contains("next_bow = !cat.intersects(CategoryType::NOOOVBOW2)"))
}

/// does `MeCabOovPlugin::read_oov` reject ids equal to the matrix dimension (repair of D15b)?
fn source_unk_ge() -> bool {
    static P: std::sync::OnceLock<bool> = std::sync::OnceLock::new();
    *P.get_or_init(|| {
        let toml = std::fs::read_to_string(format!("{}/harness/Cargo.toml", std::env::var("VERIF_ROOT").unwrap_or_else(|_| "/verif".into()))).unwrap_or_default();
        let dir = toml.lines().find_map(|l| {
            let l = l.trim();
            if l.starts_with("sudachi") && l.contains("path") { l.split("path").nth(1).and_then(|r| r.split('"').nth(1)).map(|x| x.to_string()) } else { None }
        }).unwrap_or_else(|| "/repo/sudachi".to_string());
        std::fs::read_to_string(format!("{}/src/plugin/oov/mecab_oov/mod.rs", dir)).map(|s| s.contains("as usize >= grammar.conn_matrix().num_left()")).unwrap_or(false)
    })
}

/// does `MeCabOovPlugin::provide_oov_gen` stop its 1..n candidates where the text ends (repair of the text-end duplicates)?
fn source_mecab_stops() -> bool {
    static P: std::sync::OnceLock<bool> = std::sync::OnceLock::new();
    *P.get_or_init(|| {
        let toml = std::fs::read_to_string(format!("{}/harness/Cargo.toml", std::env::var("VERIF_ROOT").unwrap_or_else(|_| "/verif".into()))).unwrap_or_default();
        let dir = toml.lines().find_map(|l| {
            let l = l.trim();
            if l.starts_with("sudachi") && l.contains("path") { l.split("path").nth(1).and_then(|r| r.split('"').nth(1)).map(|x| x.to_string()) } else { None }
        }).unwrap_or_else(|| "/repo/sudachi".to_string());
        std::fs::read_to_string(format!("{}/src/plugin/oov/mecab_oov/mod.rs", dir)).map(|s| s.contains("sublength < i as usize")).unwrap_or(false)
    })
}

pub(crate) fn source_is_forward() -> bool {
    static P: std::sync::OnceLock<bool> = std::sync::OnceLock::new();
    *P.get_or_init(|| {
        let toml = std::fs::read_to_string(format!("{}/harness/Cargo.toml", std::env::var("VERIF_ROOT").unwrap_or_else(|_| "/verif".into()))).unwrap_or_default();
        let dir = toml.lines().find_map(|l| {
            let l = l.trim();
            if l.starts_with("sudachi") && l.contains("path") {
                l.split("path").nth(1).and_then(|r| r.split('"').nth(1)).map(|x| x.to_string())
            } else { None }
        }).unwrap_or_else(|| "/repo/sudachi".to_string());
        match std::fs::read_to_string(format!("{}/src/input_text/buffer/mod.rs", dir)) {
            Ok(src) => {
                let f = src.split("fn fill_cat_continuity").nth(1).unwrap_or("");
                let body = f.split("fn fill_orig_b2c").next().unwrap_or("");
                !body.contains(".rev()")
            }
            Err(_) => false,
        }
    })
}

fn text_tokens(d: &Defs, chars: &[char]) -> String {
    // VERIF_C13_VARIANT=fwd|bwd|spec asks the model for that variant of fill_cat_continuity (default: the
    // model's `defaultVariant`, i.e. what the current tree does); used to validate a repaired tree
    // without the variable the variant is chosen by probing the source the harness is built against:
    // the pinned tree computes the runs back to front (`.rev()` loop), the repaired one left to right
    let v = match std::env::var("VERIF_C13_VARIANT") {
        Ok(v) if !v.is_empty() => format!(" variant={}", v),
        _ => format!(" variant={}", if source_is_forward() { "fwd" } else { "bwd" }),
    };
    let b = if source_chains_bow_ban() { " bow=fix" } else { "" };
    format!("text={} def={}{}{}{}", join(chars.iter().map(|c| *c as u32), ","), hex(d.char_def.as_bytes()), v, b, hist_token(&cur_hist()))
}

fn label_runs(cats: &[u32], observed: &[usize]) -> &'static str {
    if observed == d11_reference(cats).as_slice() { "D11-backward-narrowing" } else { "other" }
}

/// `buf` case: classes, runs, word starts; oracle = left-to-right runs + context independence
fn case_buf(run: &mut Run, ctx: &Ctx, idx: usize, d: &Defs, text: &str) {
    let sp = SimpleP { l: 0, r: 0, cost: 0, pos: 0 };
    let dic = match load_with(ctx, d, ctx.system.clone(), &[], &[simple_json(&sp)]) {
        Ok(x) => x,
        Err(e) => { run.bump(&format!("buf-load-error:{}", e.chars().take(30).collect::<String>())); return; }
    };
    let chars: Vec<char> = text.chars().collect();
    let payload = text_tokens(d, &chars);
    let hist = cur_hist();
    run.bump(if hist.texts.is_empty() { "buf:objects:new".to_string() } else { format!("buf:objects:recycled-after-{}-texts", hist.texts.len()) }.as_str());
    let ib = match build_input_hist(&dic, &hist, text) {
        Ok(x) => x,
        Err(_) => { run.case(idx, "buf", &payload, "PANIC", false); run.fail(idx, "buf:panic", &format!("InputBuffer::build panicked{}", hist_words(&hist))); return; }
    };
    let n = chars.len();
    // the accessors index the tables of the (possibly recycled) buffer: a panic there is the implementation's, not the harness's
    let obs = catch(|| {
        let t = ib.verif_tables();
        let cont: Vec<usize> = (0..n).map(|i| ib.cat_continuous_len(i)).collect();
        let bow: String = (0..text.len()).map(|b| if ib.can_bow(b) { '1' } else { '0' }).collect();
        let wcl: Vec<usize> = (0..n).map(|i| ib.get_word_candidate_length(i)).collect();
        let cats: Vec<u32> = (0..n).map(|i| ib.cat_at_char(i).bits()).collect();
        // `can_bow` at the first byte of every character (no input-text plugin here: the offsets are those of `text`)
        let bowc: Vec<bool> = text.char_indices().map(|(b, _)| ib.can_bow(b)).collect();
        (t, cont, bow, wcl, cats, bowc)
    });
    let starts: Vec<usize> = text.char_indices().map(|(b, _)| b).collect();
    let (t, cont, bow, wcl, cats, bowc) = match obs {
        Ok(x) => x,
        Err(p) => {
            run.case(idx, "buf", &payload, "PANIC", false);
            run.fail(idx, "buf:panic", &format!("text {:?}: reading classes / run lengths / can_bow / get_word_candidate_length of the built buffer panicked: {}", text, p));
            return;
        }
    };
    let ans = format!("ok cats={} cont={} bow={} wcl={}", join(cats.iter(), ","), join(cont.iter(), ","), bow, join(wcl.iter(), ","));
    let multi = cats.iter().any(|c| c.count_ones() > 1);
    run.case(idx, "buf", &payload, &ans, multi && n >= 3);
    run.bump(if n > 64 { "buf:long" } else { "buf:short" });
    if multi { run.bump("buf:multi-class"); }
    if t.mod_cat != cats {
        run.fail(idx, "cats:table", &format!("text {:?}: the class table of the buffer {:?} is not the classes of its characters {:?}", text, t.mod_cat, cats));
    }
    // oracle 1: classes are those the definition declares
    let want_cats: Vec<u32> = chars.iter().map(|&c| d.cat_of(c)).collect();
    if want_cats != cats {
        run.fail(idx, "cats", &format!("classes {:?}, definition says {:?}", cats, want_cats));
    }
    // oracle 2: runs determined left to right
    let spec = spec_runs(&cats);
    if spec != cont {
        run.bump("buf:runs-differ-from-spec");
        run.fail(idx, &format!("continuity:{}", label_runs(&cats, &cont)),
            &format!("text {:?} classes {:?}: cat_continuous_len {:?}, left-to-right runs {:?}", text, cats, cont, spec));
    }
    // oracle 3: run boundaries inside a prefix depend only on the prefix
    let full_starts = run_starts(&cont);
    for k in 1..n {
        if n > 20 && k % 7 != 0 { continue; }
        let prefix: String = chars[..k].iter().collect();
        if let Ok(pb) = build_input(&dic, &prefix) {
            let pc: Vec<usize> = (0..k).map(|i| pb.cat_continuous_len(i)).collect();
            let ps = run_starts(&pc);
            let fs: Vec<usize> = full_starts.iter().cloned().filter(|&s| s < k).collect();
            if ps != fs {
                let lab = if label_runs(&cats, &cont) != "other" && label_runs(&cats[..k], &pc) != "other" { "D11-backward-narrowing" } else { "other" };
                run.bump("buf:context-dependence");
                run.fail(idx, &format!("context:{}", lab),
                    &format!("text {:?}: runs start at {:?} in the prefix of {} characters alone, at {:?} when followed by {:?}",
                        text, ps, k, fs, chars[k..].iter().collect::<String>()));
                break;
            }
        }
    }
    // oracle 3b: word starts as documented in category_type.rs / buffer/mod.rs: NOOOVBOW forbids the
    // character, NOOOVBOW2 the character and the next one, a letter (ALPHA/GREEK/CYRILLIC) continues a
    // preceding character that shares a class with it
    let doc_bow = |i: usize| -> bool {
        let c = cats[i];
        let prev = if i > 0 { cats[i - 1] } else { 0 };
        if c & (NOBOW | NOBOW2) != 0 || prev & NOBOW2 != 0 { false }
        else if c & (32 | 512 | 1024) != 0 { c & prev == 0 }
        else { true }
    };
    let mut bad: Vec<usize> = vec![];
    for i in 0..n {
        if bowc[i] != doc_bow(i) { bad.push(i); }
    }
    if !bad.is_empty() {
        // the one known deviation: after two or more consecutive NOOOVBOW2 characters the second one "uses up" the ban
        let chain = bad.iter().all(|&i| i >= 2 && cats[i - 1] & NOBOW2 != 0 && cats[i - 2] & NOBOW2 != 0 && bowc[i]);
        run.bump("buf:word-start-differs-from-documented-rule");
        run.fail(idx, if chain { "bow:consecutive-NOOOVBOW2" } else { "bow:other" },
            &format!("text {:?} classes {:?}: can_bow differs from the documented rule at characters {:?}", text, cats, bad));
    }
    for b in 0..text.len() {
        if !starts.contains(&b) && bow.as_bytes()[b] == b'1' {
            run.fail(idx, "bow:inside-character", &format!("can_bow({}) is true inside a character", b));
            break;
        }
    }
    // oracle 4: the fallback length reaches the next permissible word start
    for i in 0..n {
        let mut e = i + 1;
        while e < n && !bowc[e] { e += 1; }
        if wcl[i] != e - i {
            run.fail(idx, "wcl", &format!("get_word_candidate_length({}) = {}, next word start is {} characters away", i, wcl[i], e - i));
            break;
        }
    }
}

// ---------------------------------------------------------------------------------------------
// observing the provider calls of the REAL `LatticeBuilder::build_lattice`: the tokenizer runs on a
// `DictionaryAccess` whose OOV providers are thin wrappers around the loaded ones; every `provide_oov`
// call (provider index, offset, `other_words`, `result.len()` on entry, nodes pushed) is logged.

#[derive(Clone, Debug)]
struct CallRec {
    idx: usize,
    offset: usize,
    created: u64,
    pre: usize,
    cnt: usize,
    out: Vec<Cand>,
}

fn mask_of(c: CreatedWords) -> u64 {
    use sudachi::analysis::created::HasWord;
    let mut m = 0u64;
    for len in 1..=64i64 {
        if c.has_word(len) != HasWord::No { m |= 1u64 << (len - 1); }
    }
    m
}

struct SpyProvider {
    dic: Arc<JapaneseDictionary>,
    idx: usize,
    log: Arc<Mutex<Vec<CallRec>>>,
}

impl OovProviderPlugin for SpyProvider {
    fn set_up(&mut self, _settings: &serde_json::Value, _config: &sudachi::config::Config, _grammar: &mut Grammar) -> SudachiResult<()> {
        Ok(())
    }

    fn provide_oov(&self, input_text: &InputBuffer, offset: usize, other_words: CreatedWords, result: &mut Vec<Node>) -> SudachiResult<usize> {
        let pre = result.len();
        let r = self.dic.oov_provider_plugins()[self.idx].provide_oov(input_text, offset, other_words, result);
        if let Ok(cnt) = &r {
            let out: Vec<Cand> = result[pre..].iter().map(node_tuple).collect();
            self.log.lock().unwrap_or_else(|e| e.into_inner()).push(CallRec { idx: self.idx, offset, created: mask_of(other_words), pre, cnt: *cnt, out });
        }
        r
    }
}

struct Spy {
    dic: Arc<JapaneseDictionary>,
    oov: Vec<Box<dyn OovProviderPlugin + Sync + Send>>,
    log: Arc<Mutex<Vec<CallRec>>>,
}

impl Spy {
    fn new(dic: JapaneseDictionary) -> Spy {
        let dic = Arc::new(dic);
        let log = Arc::new(Mutex::new(vec![]));
        let oov = (0..dic.oov_provider_plugins().len())
            .map(|idx| Box::new(SpyProvider { dic: dic.clone(), idx, log: log.clone() }) as Box<dyn OovProviderPlugin + Sync + Send>)
            .collect();
        Spy { dic, oov, log }
    }
}

impl DictionaryAccess for Spy {
    fn grammar(&self) -> &Grammar<'_> { self.dic.grammar() }
    fn lexicon(&self) -> &LexiconSet<'_> { self.dic.lexicon() }
    fn input_text_plugins(&self) -> &[Box<dyn InputTextPlugin + Sync + Send>] { self.dic.input_text_plugins() }
    fn oov_provider_plugins(&self) -> &[Box<dyn OovProviderPlugin + Sync + Send>] { &self.oov }
    fn path_rewrite_plugins(&self) -> &[Box<dyn PathRewritePlugin + Sync + Send>] { self.dic.path_rewrite_plugins() }
}

fn len_mask(lens: &[usize]) -> u64 {
    lens.iter().fold(0u64, |m, &l| m | 1u64 << (l - 1).min(63))
}

pub(crate) fn prov_tokens(kind: &Prov, d: &Defs, sp: &SimpleP, rp: &RegexP, ctx: &Ctx) -> String {
    match kind {
        Prov::M => format!("mdef={} unk={} poslist={} nl={} nr={} unkge={}", hex(mecab_def_text(d).as_bytes()), hex(&d.unk_bytes()), ctx.poslist_hex,
            d.dims.map_or(N_IDS, |x| x.0), d.dims.map_or(N_IDS, |x| x.1), if source_unk_ge() { 1 } else { 0 }) + if source_mecab_stops() { " mstop=1" } else { "" },
        Prov::S => format!("sp={}:{}:{}:{}", sp.l, sp.r, sp.cost, sp.pos),
        // `rxempty=skip`: the linked tree's `provide_oov` ignores an empty match (behavioural probe in c03.rs)
        Prov::R => format!("rp={}:{}:{}:{} re={} maxlen={} strict={}{}", rp.l, rp.r, rp.cost, rp.pos,
            join(rp.alts.iter().map(|a| format!("{}:{}:{}", a.min, a.max.map_or(0, |m| m + 1), join(a.set.iter().map(|c| *c as u32), "."))), ";"),
            rp.max_length, rp.strict as u8, if crate::c03::regex_skips_empty() { " rxempty=skip" } else { "" }),
    }
}

fn node_tuple(n: &Node) -> Cand {
    (n.begin(), n.end(), n.left_id(), n.right_id(), n.cost(), n.word_id().word() as usize)
}

/// `prov` case: one provider called directly through the public trait
fn case_prov(run: &mut Run, ctx: &Ctx, idx: usize, d: &Defs, text: &str, kind: Prov, sp: &SimpleP, rp: &RegexP, rng: &mut Rng, extra: &[(usize, u64, Vec<usize>)]) {
    case_prov_q(run, ctx, idx, d, text, kind, sp, rp, rng, extra, false)
}

/// `only_extra`: ask exactly the queries of `extra` (used where a query at some offsets would not terminate in
/// reasonable time, e.g. LENGTH = u32::MAX on a run that reaches the end of the text)
fn case_prov_q(run: &mut Run, ctx: &Ctx, idx: usize, d: &Defs, text: &str, kind: Prov, sp: &SimpleP, rp: &RegexP, rng: &mut Rng, extra: &[(usize, u64, Vec<usize>)], only_extra: bool) {
    let json = match kind { Prov::M => mecab_json_of(d), Prov::S => simple_json(sp), Prov::R => regex_json(rp) };
    let kname = match kind { Prov::M => "m", Prov::S => "s", Prov::R => "r" };
    let chars: Vec<char> = text.chars().collect();
    let n = chars.len();
    // queries: every offset (a sample for long texts) x created masks
    let mut queries: Vec<(usize, u64, Vec<usize>)> = extra.to_vec();
    for off in 0..n {
        if only_extra { break; }
        if n > 20 && !(off < 3 || off + 3 > n || rng.chance(1, 8)) { continue; }
        queries.push((off, 0, vec![]));
        let mut mask: u64 = 0;
        let mut ends = vec![];
        for _ in 0..rng.range(1, 3) {
            let len = if rng.chance(1, 3) { rng.range(61, 67) } else { rng.range(1, 6) };
            mask |= 1u64 << (len - 1).min(63);
            if rng.chance(3, 4) { ends.push(off + len); }
        }
        if rng.chance(1, 3) && n - off >= 64 { mask |= 1 << 63; ends.push(off + rng.range(64, n - off)); }
        queries.push((off, mask, ends));
    }
    let payload = format!("{} kind={} {} q={}", text_tokens(d, &chars), kname, prov_tokens(&kind, d, sp, rp, ctx),
        join(queries.iter().map(|(o, m, es)| format!("{}:{}:{}", o, m, join(es.iter(), "."))), ";"));
    if matches!(kind, Prov::M) {
        run.bump(&format!("prov:m:settings:{}", match d.files { 1 => "keys-omitted", 2 => "other-file-names", _ => "explicit-default-names" }));
        if let Some((nl, nr)) = d.dims { run.bump(&format!("prov:m:matrix:{}x{}", nl, nr)); }
    }
    let dic = match load_with(ctx, d, system_of(ctx, d), &[], &[json]) {
        Ok(x) => x,
        Err(e) => {
            run.case(idx, "prov", &payload, "err:setup", false);
            run.bump(&format!("prov-setup-error:{}", kname));
            if !d.broken || !matches!(kind, Prov::M) {
                run.fail(idx, "setup", &format!("a well-formed definition was rejected: {}", e.chars().take(200).collect::<String>()));
            }
            return;
        }
    };
    if d.broken && matches!(kind, Prov::M) { run.bump("prov:broken-definition-loaded"); }
    if d.must_fail && matches!(kind, Prov::M) {
        run.case(idx, "prov", &payload, "ok accepted-malformed-definition", false);
        run.fail(idx, "setup:accepted-malformed", &format!("a malformed definition was accepted: char.def {:?} unk.def {:?}", mecab_def_text(d), d.unk_def));
        return;
    }
    let hist = cur_hist();
    run.bump(if hist.texts.is_empty() { "prov:objects:new".to_string() } else { format!("prov:objects:recycled-after-{}-texts", hist.texts.len()) }.as_str());
    let ib = match build_input_hist(&dic, &hist, text) {
        Ok(x) => x,
        Err(_) => { run.case(idx, "prov", &payload, "PANIC", false); return; }
    };
    let obs = catch(|| {
        let cats: Vec<u32> = (0..n).map(|i| ib.cat_at_char(i).bits()).collect();
        let cont: Vec<usize> = (0..n).map(|i| ib.cat_continuous_len(i)).collect();
        let t = ib.verif_tables();
        let bow: Vec<bool> = (0..n).map(|i| ib.can_bow(t.mod_c2b[i])).collect();
        (cats, cont, bow)
    });
    let (cats, cont, bow) = match obs {
        Ok(x) => x,
        Err(p) => {
            run.case(idx, "prov", &payload, "PANIC", false);
            run.fail(idx, "buf:panic", &format!("text {:?}: reading classes / run lengths / can_bow of the built buffer panicked: {}", text, p));
            return;
        }
    };
    let spec = spec_runs(&cats);
    if matches!(kind, Prov::M) {
        // distribution: characters with several classes whose behaviour lines differ in GROUP (the 1..n limit is per class)
        for (off, _, _) in &queries {
            let here: Vec<&Info> = { let mut v: Vec<&Info> = d.infos.iter().filter(|i| i.cat.count_ones() == 1 && cats[*off] & i.cat != 0 && d.unks.iter().any(|u| u.cat == i.cat)).collect(); v.sort_by_key(|i| i.cat); v };
            run.bump(&format!("prov:m:classes-with-line-at-query:{}", here.len().min(3)));
            if here.len() >= 2 && here.iter().any(|i| i.group) && here.iter().any(|i| !i.group) {
                run.bump("prov:m:mixed-group-character");
                let run_here = cont[*off];
                for w in here.windows(2) {
                    if w[0].group && !w[1].group { run.bump("prov:m:mixed-group:lower-bit-grouped-higher-not"); if w[1].length as usize >= run_here { run.bump("prov:m:mixed-group:lower-grouped,higher-length>=run"); } }
                    if !w[0].group && w[1].group { run.bump("prov:m:mixed-group:higher-bit-grouped-lower-not"); if w[0].length as usize >= run_here { run.bump("prov:m:mixed-group:higher-grouped,lower-length>=run"); } }
                }
            }
            if cats[*off] & 0x3fff_8000 != 0 && cats[*off] & ALLM != ALLM { run.bump("prov:m:query-at-character-with-unnamed-class-bits"); }
        }
    }
    let plugin = &dic.oov_provider_plugins()[0];
    let prov_fail0 = run.failures.len();
    let mut answers = vec![];
    let mut produced = 0usize;
    for (off, mask, ends) in &queries {
        let mut nodes: Vec<Node> = ends.iter().map(|&e| Node::new(*off as u16, e as u16, 0, 0, 0, WordId::new(0, 0))).collect();
        let pre = nodes.len();
        let r = catch(|| plugin.provide_oov(&ib, *off, created_of(*mask), &mut nodes));
        match r {
            Err(p) => {
                answers.push("P".to_string());
                run.bump(&format!("prov:panic:{}", p.chars().take(40).collect::<String>()));
                let empty_match = matches!(kind, Prov::R) && rp.alts.iter().any(|a| a.min == 0);
                if !empty_match {
                    run.fail(idx, &format!("prov-panic:{}", kname), &format!("provide_oov panicked at offset {}: {}", off, p));
                }
            }
            Ok(Err(_)) => answers.push("E".to_string()),
            Ok(Ok(cnt)) => {
                let new: Vec<Cand> = nodes[pre..].iter().map(node_tuple).collect();
                produced += new.len();
                if cnt != new.len() {
                    run.fail(idx, &format!("count:{}", kname), &format!("offset {}: returned {} but pushed {} nodes", off, cnt, new.len()));
                }
                answers.push(if new.is_empty() { "_".to_string() } else {
                    join(new.iter().map(|c| format!("{}:{}:{}:{}:{}:{}", c.0, c.1, c.2, c.3, c.4, c.5)), ",")
                });
                // oracle: candidate set recomputed from the structured definitions
                let got: BTreeSet<Cand> = new.iter().cloned().collect();
                let has = |k: usize| -> bool {
                    let bit = (k - 1).min(63);
                    if mask >> bit & 1 == 0 { false } else if k < 64 { true } else { ends.iter().any(|&e| e == off + k) }
                };
                let expect = |runs: &[usize]| -> BTreeSet<Cand> {
                    match kind {
                        Prov::M => expect_mecab(d, &cats, runs, *off, *mask == 0),
                        Prov::S => expect_simple(sp, &bow, *off, *mask == 0),
                        Prov::R => expect_regex(rp, &chars, runs, *off, &has),
                    }
                };
                let want = expect(&spec);
                if got != want {
                    let lab = if spec != cont && got == expect(&cont) { format!("D11-backward-narrowing:{}", kname) } else { format!("other:{}", kname) };
                    run.fail(idx, &format!("candidates:{}", lab),
                        &format!("text {:?} offset {} created {:#x}: got {:?}, definition prescribes {:?}", text, off, mask, got, want));
                }
                if new.len() != got.len() { run.bump("prov:duplicate-nodes-returned"); }
                // oracle: every prescribed candidate ONCE per definition line that prescribes it ("candidates of 1..n characters")
                if matches!(kind, Prov::M) && got == want {
                    let want_n = expect_mecab_counts(d, &cats, &spec, *off, *mask == 0);
                    let mut got_n: std::collections::BTreeMap<Cand, usize> = std::collections::BTreeMap::new();
                    for c in &new { *got_n.entry(*c).or_insert(0) += 1; }
                    let surplus: Vec<(Cand, usize, usize)> = got_n.iter().filter(|(c, k)| want_n.get(*c).map_or(true, |w| *k > w)).map(|(c, k)| (*c, *k, *want_n.get(c).unwrap_or(&0))).collect();
                    let missing = want_n.iter().any(|(c, w)| got_n.get(c).map_or(true, |k| k < w));
                    if !surplus.is_empty() || missing {
                        // the known shape: only candidates that END AT THE END OF THE TEXT are repeated (char_distance saturates there)
                        let at_end = !missing && surplus.iter().all(|(c, _, _)| c.1 == n);
                        run.bump("prov:m:candidate-pushed-more-often-than-prescribed");
                        run.fail(idx, if at_end { "duplicates:text-end:m" } else { "duplicates:other:m" },
                            &format!("text {:?} offset {} created {:#x}: candidates returned more often than the definition lines prescribe (candidate, returned, prescribed): {:?}", text, off, mask, surplus));
                    }
                }
            }
        }
    }
    run.bump(&format!("prov:{}", kname));
    if n > 64 { run.bump("prov:long"); }
    run.case(idx, "prov", &payload, &format!("ok {}", answers.join(";")), produced > 0);
    // the oracle ran before the line of this case was recorded: its failures name THIS line in the replay
    let line = format!("{} prov idx={} {}", run.prop, idx, payload);
    for f in run.failures[prov_fail0..].iter_mut() { if f.index == idx { f.line = line.clone(); } }
}

pub(crate) struct LatCase {
    pub(crate) provs: Vec<Prov>,
    pub(crate) sp: SimpleP,
    pub(crate) rp: RegexP,
    pub(crate) lex: Vec<Row>,
    pub(crate) normalise: bool,
}

pub(crate) fn gen_lat(rng: &mut Rng, d: &Defs) -> LatCase {
    let np = rng.range(1, 4);
    let mut provs: Vec<Prov> = (0..np).map(|_| match rng.below(3) { 0 => Prov::M, 1 => Prov::S, _ => Prov::R }).collect();
    if rng.chance(3, 4) {
        // a fallback provider configured last (the shipped configuration)
        if !matches!(provs.last(), Some(Prov::S)) {
            if provs.len() >= 3 { provs.pop(); }
            provs.push(Prov::S);
        }
    }
    let mut lex = fixed_rows();
    for _ in 0..rng.below(6) {
        let w = rand_word(rng, &d.pool, 3);
        lex.push(Row::simple(&w, small_id(rng) as i32, small_id(rng) as i32, rng.below(9000) as i32 - 500, rng.below(POS.len())));
    }
    LatCase { provs, sp: gen_simple(rng), rp: gen_regex(rng, &d.pool, false), lex, normalise: rng.chance(1, 3) }
}

/// `lat` case: the whole builder; every node of the lattice is compared
fn case_lat(run: &mut Run, ctx: &Ctx, idx: usize, d: &Defs, text: &str, lc: &LatCase) {
    let system = build_dic(&lc.lex, 77);
    let oov: Vec<String> = lc.provs.iter().map(|p| match p { Prov::M => mecab_json_of(d), Prov::S => simple_json(&lc.sp), Prov::R => regex_json(&lc.rp) }).collect();
    let input: Vec<String> = if lc.normalise { vec![r#"{"class":"com.worksap.nlp.sudachi.DefaultInputTextPlugin"}"#.to_string()] } else { vec![] };
    let has_m = lc.provs.iter().any(|p| matches!(p, Prov::M));
    let kinds: Vec<&str> = lc.provs.iter().map(|p| match p { Prov::M => "m", Prov::S => "s", Prov::R => "r" }).collect();
    let mut ptoks = vec![];
    for (k, p) in [("m", Prov::M), ("s", Prov::S), ("r", Prov::R)] {
        if kinds.contains(&k) { ptoks.push(prov_tokens(&p, d, &lc.sp, &lc.rp, ctx)); }
    }
    let lex_tok = join(lc.lex.iter().map(|r| format!("{}:{}:{}:{}", join(r.surface.chars().map(|c| c as u32), "."), r.left, r.right, r.cost)), ";");
    let dic = match load_with(ctx, d, system, &input, &oov) {
        Ok(x) => x,
        Err(e) => {
            // the modified text is not observable without a dictionary; the plain text is sent
            let chars: Vec<char> = text.chars().collect();
            let payload = format!("{} provs={} {} lex={}", text_tokens(d, &chars), kinds.join("."), ptoks.join(" "), lex_tok);
            run.case(idx, "lat", &payload, "err:setup", false);
            run.bump("lat:setup-error");
            if !(d.broken && has_m) {
                run.fail(idx, "setup", &format!("a well-formed configuration was rejected: {}", e.chars().take(200).collect::<String>()));
            }
            return;
        }
    };
    if d.must_fail && has_m {
        let chars: Vec<char> = text.chars().collect();
        let payload = format!("{} provs={} {} lex={}", text_tokens(d, &chars), kinds.join("."), ptoks.join(" "), lex_tok);
        run.case(idx, "lat", &payload, "ok accepted-malformed-definition", false);
        run.fail(idx, "setup:accepted-malformed", &format!("a malformed definition was accepted: char.def {:?} unk.def {:?}", mecab_def_text(d), d.unk_def));
        return;
    }
    let spy = Spy::new(dic);
    let dic: &JapaneseDictionary = &spy.dic;
    let ib = match build_input(dic, text) {
        Ok(x) => x,
        Err(_) => { run.bump("lat:input-panic"); return; }
    };
    let chars: Vec<char> = ib.current_chars().to_vec();
    let n = chars.len();
    let payload = format!("{} provs={} {} lex={}", text_tokens(d, &chars), kinds.join("."), ptoks.join(" "), lex_tok);
    let mut tok = StatefulTokenizer::new(&spy, Mode::C);
    let mut ml = MorphemeList::empty(&spy);
    // RECYCLED objects: the one tokenizer (and the one result list it swaps buffers with) analysed the earlier texts first
    let hist = cur_hist();
    let mut warm_ok = true;
    for (k, h) in hist.texts.iter().enumerate() {
        tok.reset().push_str(h);
        match catch(|| tok.do_tokenize()) {
            Ok(Ok(())) => {
                if hist.collect.get(k).copied().unwrap_or(false) && ml.collect_results(&mut tok).is_err() { warm_ok = false; break; }
            }
            // an analysis that ended in an error (no fallback provider): `reset` recycles the objects all the same
            Ok(Err(_)) => { run.bump("lat:earlier-text-ended-in-error"); }
            Err(_) => { warm_ok = false; break; }
        }
    }
    if !warm_ok {
        // the earlier text is not the subject of the case: the case runs on new objects
        run.bump("lat:earlier-text-panicked:new-objects-used");
        tok = StatefulTokenizer::new(&spy, Mode::C);
        ml = MorphemeList::empty(&spy);
    }
    run.bump(if hist.texts.is_empty() { "lat:objects:new".to_string() } else {
        format!("lat:objects:recycled-after-{}-texts:{}-collected", hist.texts.len(), hist.collect.iter().filter(|c| **c).count()) }.as_str());
    spy.log.lock().unwrap_or_else(|e| e.into_inner()).clear();
    tok.reset().push_str(text);
    let r = catch(|| tok.do_tokenize());
    let fallback_last = matches!(lc.provs.last(), Some(Prov::S));
    run.bump(&format!("lat:providers:{}", kinds.join(".")));
    if lc.normalise { run.bump("lat:normalised-input"); }
    // every COMPLETED `provide_oov` call, also of a run that ends in `Err` or a panic (the log outlives the unwinding)
    let calls: Vec<CallRec> = spy.log.lock().unwrap_or_else(|e| e.into_inner()).clone();
    let calls_txt = join(calls.iter().map(|c| format!("{}~{}~{}~{}~{}", c.idx, c.offset, c.created, c.pre,
        if c.out.is_empty() { "_".to_string() } else { join(c.out.iter().map(|x| format!("{}:{}:{}:{}:{}:{}", x.0, x.1, x.2, x.3, x.4, x.5)), ",") })), "+");
    match r {
        Err(p) => {
            run.case(idx, "lat", &payload, &format!("PANIC calls={}", calls_txt), false);
            run.bump(&format!("lat:panic:{}", p.chars().take(40).collect::<String>()));
            run.bump_by("lat:provider-calls-before-panic", calls.len() as u64);
            run.fail(idx, "lat-panic", &format!("do_tokenize panicked: {}", p));
        }
        Ok(Err(e)) => {
            let cls = err_class(&e);
            run.case(idx, "lat", &payload, &format!("err:{} calls={}", cls, calls_txt), true);
            run.bump(&format!("lat:err:{}", cls));
            run.bump_by("lat:provider-calls-before-error", calls.len() as u64);
            if fallback_last {
                run.fail(idx, "disconnect-with-fallback", &format!("text {:?}: {} although the fallback provider is configured last", text, cls));
            }
            // oracle on the trace of the failing run (independent of the model): the builder gives up at the first position
            // where nothing exists - so the LAST call is the extra call of the last provider with an empty mask and an empty
            // buffer, it pushed nothing, and every call at that position pushed nothing; calls are in position order
            if cls == "Disconnect" && n > 0 {
                let nprov = lc.provs.len();
                let mut why = String::new();
                match calls.last() {
                    None => why = "EosBosDisconnect without a single provide_oov call".into(),
                    Some(l) => {
                        if !(l.idx == nprov - 1 && l.created == 0 && l.pre == 0 && l.out.is_empty()) {
                            why = format!("the last call before the error is (provider {}, created {:#x}, buffer {}, {} nodes), not the fruitless extra call of the last provider", l.idx, l.created, l.pre, l.out.len());
                        } else if calls.iter().filter(|c| c.offset == l.offset).any(|c| !c.out.is_empty()) {
                            why = format!("a provider pushed nodes at position {} and the builder still reported Disconnect", l.offset);
                        } else {
                            // at the failing position: the whole provider list (iff the character's class lets it run) and then the extra call
                            let here: Vec<usize> = calls.iter().filter(|c| c.offset == l.offset).map(|c| c.idx).collect();
                            let cat = chars.get(l.offset).map_or(0, |&c| d.cat_of(c));
                            let mut want: Vec<usize> = if cat & (NOBOW | NOBOW2) == 0 { (0..nprov).collect() } else { vec![] };
                            want.push(nprov - 1);
                            if here != want {
                                why = format!("position {} (class {:#x}): providers called before the error {:?}, expected {:?}", l.offset, cat, here, want);
                            }
                        }
                    }
                }
                if calls.windows(2).any(|w| w[0].offset > w[1].offset) { why = "provider calls are not in position order".into(); }
                if !why.is_empty() { run.fail(idx, "provider-calls:failing-run", &format!("text {:?} providers {}: {}", text, kinds.join("."), why)); }
            }
        }
        Ok(Ok(())) => {
            if n == 0 {
                run.case(idx, "lat", &payload, "ok ", false);
                return;
            }
            let rows = tok.verif_lattice().verif_rows();
            let mut per: Vec<Vec<(usize, u16, u16, i16, u8, usize)>> = vec![vec![]; n];
            for row in rows.iter().take(n + 1) {
                for &(b, e, l, r_, c, raw, _tot, _pe, _pi) in row {
                    let oovf = (raw >> 28) == 0xf;
                    per[b].push((e, l, r_, c, oovf as u8, if oovf { (raw & 0x0fff_ffff) as usize } else { 0 }));
                }
            }
            let mut parts = vec![];
            for (b, v) in per.iter_mut().enumerate() {
                v.sort();
                if !v.is_empty() {
                    parts.push(format!("{}={}", b, join(v.iter().map(|x| format!("{}:{}:{}:{}:{}:{}", x.0, x.1, x.2, x.3, x.4, x.5)), ",")));
                }
            }
            run.case(idx, "lat", &payload, &format!("ok {} calls={}", parts.join(";"), calls_txt), per.iter().flatten().any(|x| x.4 == 1));
            run.bump_by("lat:provider-calls", calls.len() as u64);
            // ---- oracle: candidates at every reachable position, recomputed from the definitions
            let cats: Vec<u32> = chars.iter().map(|&c| d.cat_of(c)).collect();
            let t = ib.verif_tables();
            let bow: Vec<bool> = (0..n).map(|i| ib.can_bow(t.mod_c2b[i])).collect();
            let cont: Vec<usize> = (0..n).map(|i| ib.cat_continuous_len(i)).collect();
            let spec = spec_runs(&cats);
            let mut reach = vec![false; n + 1];
            reach[0] = true;
            let mut reported = false;
            for p in 0..n {
                if !reach[p] {
                    if !per[p].is_empty() && !reported {
                        run.fail(idx, "unreachable-position-has-nodes", &format!("position {} has nodes but nothing ends there", p));
                        reported = true;
                    }
                    continue;
                }
                if per[p].is_empty() {
                    if !reported { run.fail(idx, "no-candidate", &format!("text {:?}: reachable position {} has no candidate", text, p)); reported = true; }
                    continue;
                }
                for x in &per[p] { reach[x.0] = true; }
                let lex_lens: BTreeSet<usize> = per[p].iter().filter(|x| x.4 == 0).map(|x| x.0 - p).collect();
                // dictionary words: exactly the entries that are prefixes and end at a permissible boundary
                let mut want_lex: Vec<(usize, u16, u16, i16)> = vec![];
                for w in &lc.lex {
                    let wc: Vec<char> = w.surface.chars().collect();
                    if chars[p..].starts_with(&wc) && (p + wc.len() == n || bow[p + wc.len()]) {
                        want_lex.push((p + wc.len(), w.left as u16, w.right as u16, w.cost as i16));
                    }
                }
                want_lex.sort();
                let got_lex: Vec<(usize, u16, u16, i16)> = per[p].iter().filter(|x| x.4 == 0).map(|x| (x.0, x.1, x.2, x.3)).collect();
                if want_lex != got_lex && !reported {
                    run.fail(idx, "lexicon-nodes", &format!("position {}: dictionary nodes {:?}, expected {:?}", p, got_lex, want_lex));
                    reported = true;
                }
                let got: BTreeSet<Cand> = per[p].iter().filter(|x| x.4 == 1).map(|x| (p, x.0, x.1, x.2, x.3, x.5)).collect();
                let expect = |runs: &[usize]| -> BTreeSet<Cand> {
                    let mut lens = lex_lens.clone();
                    let mut out: BTreeSet<Cand> = BTreeSet::new();
                    let one = |pr: &Prov, lens: &BTreeSet<usize>| -> BTreeSet<Cand> {
                        match pr {
                            Prov::M => expect_mecab(d, &cats, runs, p, lens.is_empty()),
                            Prov::S => expect_simple(&lc.sp, &bow, p, lens.is_empty()),
                            Prov::R => expect_regex(&lc.rp, &chars, runs, p, &|k| lens.contains(&k)),
                        }
                    };
                    if cats[p] & (NOBOW | NOBOW2) == 0 {
                        for pr in &lc.provs {
                            let c = one(pr, &lens);
                            for x in &c { lens.insert(x.1 - x.0); }
                            out.extend(c);
                        }
                    }
                    if lens.is_empty() {
                        out.extend(one(lc.provs.last().unwrap(), &lens));
                    }
                    out
                };
                let want = expect(&spec);
                if got != want && !reported {
                    let lab = if spec != cont && got == expect(&cont) { "D11-backward-narrowing:lat" } else { "other:lat" };
                    run.fail(idx, &format!("candidates:{}", lab),
                        &format!("text {:?} position {}: OOV candidates {:?}, definition prescribes {:?}", text, p, got, want));
                    reported = true;
                }
            }
            // ---- oracle: WHICH positions call the providers, in which order, with which `created` mask.
            // Every position with a previous node: dictionary words first; the provider list is run (in the configured
            // order, each provider seeing the lengths created so far and the node buffer) iff the CHARACTER at the position
            // is neither NOOOVBOW nor NOOOVBOW2 (not `can_bow`: a letter continuing a word or the character after a
            // NOOOVBOW2 one does run them); the last provider is called once more iff nothing was created.
            {
                let nprov = lc.provs.len();
                let mut want: Vec<(usize, usize, u64, usize)> = vec![];
                let mut k = 0usize; // cursor into the observed calls (outputs are taken from the observation)
                let mut ok_calls = true;
                let mut why = String::new();
                for p in 0..n {
                    if !reach[p] { continue; }
                    let mut lens: Vec<usize> = per[p].iter().filter(|x| x.4 == 0).map(|x| x.0 - p).collect();
                    let mut oov_here: Vec<Cand> = vec![];
                    let mut expect_call = |i: usize, lens: &mut Vec<usize>, k: &mut usize, oov_here: &mut Vec<Cand>| {
                        want.push((i, p, len_mask(lens), lens.len()));
                        if let Some(c) = calls.get(*k) {
                            if (c.idx, c.offset, c.created, c.pre) == (i, p, len_mask(lens), lens.len()) {
                                for x in &c.out { lens.push(x.1 - x.0); oov_here.push(*x); }
                                if c.cnt != c.out.len() { ok_calls = false; why = format!("call {} returned {} but pushed {}", *k, c.cnt, c.out.len()); }
                            } else if ok_calls {
                                ok_calls = false;
                                why = format!("call #{} is (provider {}, offset {}, created {:#x}, buffer {}), expected (provider {}, offset {}, created {:#x}, buffer {})",
                                    *k, c.idx, c.offset, c.created, c.pre, i, p, len_mask(lens), lens.len());
                            }
                        } else if ok_calls {
                            ok_calls = false;
                            why = format!("expected a call of provider {} at position {} (class {:#x}), none was made", i, p, cats[p]);
                        }
                        *k += 1;
                    };
                    if cats[p] & (NOBOW | NOBOW2) == 0 {
                        for i in 0..nprov { expect_call(i, &mut lens, &mut k, &mut oov_here); }
                    }
                    if lens.is_empty() { expect_call(nprov - 1, &mut lens, &mut k, &mut oov_here); }
                    if ok_calls {
                        let mut got: Vec<Cand> = per[p].iter().filter(|x| x.4 == 1).map(|x| (p, x.0, x.1, x.2, x.3, x.5)).collect();
                        got.sort();
                        oov_here.sort();
                        if got != oov_here {
                            ok_calls = false;
                            why = format!("position {}: OOV nodes in the lattice {:?} are not the nodes the provider calls pushed {:?}", p, got, oov_here);
                        }
                    }
                    if !bow[p] && p > 0 { run.bump(if cats[p] & (NOBOW | NOBOW2) == 0 { "lat:reached-non-word-start:providers-asked" } else { "lat:reached-non-word-start:providers-skipped" }); }
                }
                if ok_calls && k != calls.len() {
                    ok_calls = false;
                    why = format!("{} provider calls were made, {} expected (first extra: {:?})", calls.len(), k, calls.get(k).map(|c| (c.idx, c.offset)));
                }
                if !ok_calls && !reported {
                    run.fail(idx, "provider-calls", &format!("text {:?} providers {}: {}", text, kinds.join("."), why));
                    reported = true;
                }
            }
            // ---- morphemes: OOV fields
            if let Err(e) = ml.collect_results(&mut tok) {
                run.fail(idx, "collect", &format!("collect_results failed: {:?}", e));
                return;
            }
            let text_tok = format!("text={}", join(chars.iter().map(|c| *c as u32), ","));
            let mut cursor = 0usize;
            let mut ok_walk = true;
            let mut lines = vec![];
            for m in ml.iter() {
                let wi = m.get_word_info();
                let len = if m.is_oov() {
                    wi.surface().chars().count()
                } else {
                    let bb = t.mod_c2b[cursor];
                    let be = bb + wi.head_word_length();
                    match t.mod_c2b.iter().position(|&x| x == be) { Some(e) => e - cursor, None => { ok_walk = false; break; } }
                };
                let (b, e) = (cursor, cursor + len);
                cursor = e;
                if e > n { ok_walk = false; break; }
                if !m.is_oov() { continue; }
                let cps = |s: &str| join(s.chars().map(|c| c as u32), ",");
                let ans = format!("ok oov={} dic={} pos={} surf={} norm={} dform={} read={}", m.is_oov() as u8, m.dictionary_id(), m.part_of_speech_id(),
                    cps(wi.surface()), cps(m.normalized_form()), cps(m.dictionary_form()), cps(m.reading_form()));
                lines.push((format!("{} b={} e={} raw={}", text_tok, b, e, m.word_id().as_raw()), ans));
                // oracle
                let slice: String = chars[b..e].iter().collect();
                let posid = m.part_of_speech_id() as usize;
                let configured: Vec<usize> = lc.provs.iter().flat_map(|p| match p {
                    Prov::M => d.unks.iter().map(|u| u.pos).collect::<Vec<_>>(),
                    Prov::S => vec![lc.sp.pos],
                    Prov::R => vec![lc.rp.pos],
                }).collect();
                let pos_ok = posid < POS.len() && m.part_of_speech().iter().map(|s| s.as_str()).eq(POS[posid].iter().cloned()) && configured.contains(&posid);
                if m.dictionary_id() != -1 || !pos_ok || m.normalized_form() != slice || m.dictionary_form() != slice || m.reading_form() != slice {
                    run.fail(idx, "oov-fields", &format!("OOV morpheme {:?} [{},{}): dictionary {}, POS {:?}, normalized {:?}, dictionary form {:?}; normalised slice {:?}",
                        m.surface().to_string(), b, e, m.dictionary_id(), m.part_of_speech(), m.normalized_form(), m.dictionary_form(), slice));
                }
                if t.m2o[t.mod_c2b[b]] != m.begin() || t.m2o[t.mod_c2b[e]] != m.end() { ok_walk = false; }
            }
            if !ok_walk || cursor != n {
                run.bump("lat:morpheme-walk-inconclusive");
            } else {
                for (p, a) in lines {
                    run.case(idx, "info", &p, &a, true);
                    run.bump("info:oov-morpheme");
                }
            }
        }
    }
}

fn d11_defs() -> Defs {
    // the classes of the shipped char.def for the three characters of the witness
    let mut d = Defs::default();
    d.pool = vec!['👍', '🏻', '漢'];
    d.assign = vec![('🏻', ALLM | NOBOW), ('漢', 4)];
    d.char_def = "0x4E00..0x9FA5 KANJI\n0x1F3FB..0x1F3FE ALL NOOOVBOW\nDEFAULT 0 1 0\nKANJI 0 0 2\n".to_string();
    d.infos = vec![Info { cat: DEFAULT, invoke: false, group: true, length: 0 }, Info { cat: 4, invoke: false, group: false, length: 2 }];
    d.unks = vec![Unk { cat: DEFAULT, l: 1, r: 1, cost: 3857, pos: 3 }, Unk { cat: 4, l: 2, r: 2, cost: 14657, pos: 0 }];
    d.unk_def = format!("DEFAULT,1,1,3857,{}\nKANJI,2,2,14657,{}\n", POS[3].join(","), POS[0].join(","));
    d
}

fn alpha_defs() -> Defs {
    let mut d = Defs::default();
    d.pool = vec!['a', 'b', 'あ'];
    d.assign = vec![('a', 32), ('b', 32), ('あ', 64)];
    d.char_def = "0x61..0x7A ALPHA\n0x3041..0x309F HIRAGANA\nALPHA 1 1 3\nHIRAGANA 0 0 2\nDEFAULT 0 1 0\n".to_string();
    d.infos = vec![Info { cat: 32, invoke: true, group: true, length: 3 }, Info { cat: 64, invoke: false, group: false, length: 2 },
        Info { cat: DEFAULT, invoke: false, group: true, length: 0 }];
    d.unks = vec![Unk { cat: 32, l: 1, r: 2, cost: 100, pos: 0 }, Unk { cat: 32, l: 3, r: 3, cost: 200, pos: 5 }, Unk { cat: 64, l: 2, r: 2, cost: 300, pos: 0 }];
    d.unk_def = format!("ALPHA,1,2,100,{}\nHIRAGANA,2,2,300,{}\nALPHA,3,3,200,{}\n", POS[0].join(","), POS[0].join(","), POS[5].join(","));
    d
}

/// the shape of the shipped char.def around joiners: letters of three scripts (ALPHA/GREEK/CYRILLIC: `can_bow` is false
/// when they continue a character of the same class), ZWJ/ZWNJ = ALL NOOOVBOW2 (the NEXT character cannot start a word
/// either), a combining mark = ALL NOOOVBOW; every letter class gets candidates of 1..n characters, so that the MeCab
/// provider makes positions reachable at which `can_bow` is false although the character itself is an ordinary one
fn zw_defs(rng: &mut Rng) -> Defs {
    let mut d = Defs::default();
    d.pool = vec!['a', 'b', 'Ω', 'я', 'あ', '漢', '\u{200d}', '\u{200c}', '\u{301}'];
    d.assign = vec![('a', 32), ('b', 32), ('Ω', 512), ('я', 1024), ('あ', 64), ('漢', 4),
        ('\u{200d}', ALLM | NOBOW2), ('\u{200c}', ALLM | NOBOW2), ('\u{301}', ALLM | NOBOW)];
    d.char_def = "0x0061..0x007A ALPHA\n0x03A9 GREEK\n0x044F CYRILLIC\n0x3041..0x309F HIRAGANA\n0x4E00..0x9FA5 KANJI\n\
0x200C..0x200D ALL NOOOVBOW2\n0x0300..0x036F ALL NOOOVBOW\n".to_string();
    for &(key, letter) in &[(32u32, true), (512, true), (1024, true), (64, false), (4, false), (DEFAULT, false)] {
        let info = Info {
            cat: key,
            invoke: rng.chance(1, 2),
            group: rng.chance(1, 2),
            length: if letter { rng.range(1, 3) as u32 } else { rng.below(3) as u32 },
        };
        d.char_def.push_str(&format!("{} {} {} {}\n", name_of(key), info.invoke as u8, info.group as u8, info.length));
        d.infos.push(info);
    }
    for info in d.infos.clone() {
        for _ in 0..rng.range(1, 2) {
            d.unks.push(Unk { cat: info.cat, l: small_id(rng), r: small_id(rng), cost: small_cost(rng), pos: rng.below(POS.len()) });
        }
    }
    for u in &d.unks {
        d.unk_def.push_str(&format!("{},{},{},{},{}\n", name_of(u.cat), u.l, u.r, u.cost, POS[u.pos].join(",")));
    }
    d
}

/// 2-9 characters; a joiner (or, less often, the combining mark) between two ordinary characters every other gap
fn zw_text(rng: &mut Rng) -> String {
    let plain = ['a', 'b', 'Ω', 'я', 'あ', '漢'];
    let mut out = String::new();
    let n = rng.range(2, 5);
    for i in 0..n {
        if i > 0 && rng.chance(1, 2) {
            out.push(*rng.pick(&['\u{200d}', '\u{200c}', '\u{200d}', '\u{301}']));
            if rng.chance(1, 8) { out.push('\u{200d}'); }
        }
        out.push(*rng.pick(&plain));
    }
    if rng.chance(1, 6) { out.push('\u{200d}'); }
    if rng.chance(1, 8) { out.insert(0, '\u{200c}'); }
    out
}

fn zw_lat(rng: &mut Rng, d: &Defs) -> LatCase {
    // the MeCab provider before the fallback (the shipped order), sometimes with a regex provider or a second one
    let provs = match rng.below(8) {
        0 => vec![Prov::R, Prov::M, Prov::S],
        1 => vec![Prov::M, Prov::M, Prov::S],
        2 => vec![Prov::M],
        3 => vec![Prov::S, Prov::M],
        _ => vec![Prov::M, Prov::S],
    };
    let mut lex = fixed_rows();
    for _ in 0..rng.below(3) {
        let w = rand_word(rng, &d.pool, 3);
        lex.push(Row::simple(&w, small_id(rng) as i32, small_id(rng) as i32, rng.below(9000) as i32 - 500, rng.below(POS.len())));
    }
    LatCase { provs, sp: gen_simple(rng), rp: gen_regex(rng, &['a', 'b', 'Ω', 'я'], false), lex, normalise: false }
}

/// small kana = KATAKANA NOOOVBOW, combining mark = ALL NOOOVBOW, joiner = ALL NOOOVBOW2 (the shipped classes), U+3091 without any
/// class line (DEFAULT, no behaviour line: only the fallback provider makes a candidate there)
fn recycle_defs() -> Defs {
    let mut d = Defs::default();
    d.pool = vec!['ゑ', 'ァ', 'a', '\u{301}', '\u{200d}'];
    d.assign = vec![('a', 32), ('ァ', 128 | NOBOW), ('\u{301}', ALLM | NOBOW), ('\u{200d}', ALLM | NOBOW2)];
    d.char_def = "0x0061..0x007A ALPHA\n0x30A1 KATAKANA NOOOVBOW\n0x0301 ALL NOOOVBOW\n0x200D ALL NOOOVBOW2\nALPHA 1 1 0\n".to_string();
    d.infos = vec![Info { cat: 32, invoke: true, group: true, length: 0 }];
    d.unks = vec![Unk { cat: 32, l: 1, r: 1, cost: 100, pos: 0 }];
    d.unk_def = format!("ALPHA,1,1,100,{}\n", POS[0].join(","));
    d
}

fn zw_fixed_defs() -> Defs {
    let mut d = Defs::default();
    d.pool = vec!['a', 'b', 'Ω', 'あ', '\u{200d}', '\u{200c}'];
    d.assign = vec![('a', 32), ('b', 32), ('Ω', 512), ('あ', 64), ('\u{200d}', ALLM | NOBOW2), ('\u{200c}', ALLM | NOBOW2)];
    d.char_def = "0x0061..0x007A ALPHA\n0x03A9 GREEK\n0x3041..0x309F HIRAGANA\n0x200C..0x200D ALL NOOOVBOW2\n\
ALPHA 1 0 2\nGREEK 1 0 2\nHIRAGANA 0 0 2\nDEFAULT 0 1 0\n".to_string();
    d.infos = vec![Info { cat: 32, invoke: true, group: false, length: 2 }, Info { cat: 512, invoke: true, group: false, length: 2 },
        Info { cat: 64, invoke: false, group: false, length: 2 }, Info { cat: DEFAULT, invoke: false, group: true, length: 0 }];
    d.unks = vec![Unk { cat: 32, l: 1, r: 1, cost: 100, pos: 0 }, Unk { cat: 512, l: 2, r: 2, cost: 200, pos: 1 }, Unk { cat: 64, l: 3, r: 3, cost: 300, pos: 2 }];
    d.unk_def = format!("ALPHA,1,1,100,{}\nGREEK,2,2,200,{}\nHIRAGANA,3,3,300,{}\n", POS[0].join(","), POS[1].join(","), POS[2].join(","));
    d
}


// ---------------------------------------------------------------------------------------------
// third round: the SYNTAX of the two definition files (what `read_character_property` / `read_oov` accept, skip and
// reject), settings shapes, non-square matrices, characters whose classes mix GROUP flags

fn spell_class(rng: &mut Rng, cat: u32, in_unk: bool) -> String {
    let name = name_of(cat);
    let single = cat.count_ones() == 1;
    match rng.below(if in_unk { 9 } else { 6 }) {
        0 | 1 | 2 => name.to_string(),
        3 => format!("{}|{}", name, name),
        4 => format!("{}|0x0", name),
        5 => if single { format!("{}|0x{:X}", name, cat) } else { format!("{}|0x1", name) },
        // unk.def only: the column is not split at white space, and a leading hex literal is not a comment
        6 => format!("{} ", name),
        7 => if single { format!("0x{:x}", cat) } else { format!("0x3fffffff") },
        _ => if single { format!("0x+{:X} | {}", cat, name) } else { format!("{} | {}", name, name) },
    }
}

/// `signed`: the column is parsed as `i16` (`-0` is a number), otherwise as `u32` (no minus sign at all)
fn spell_num(rng: &mut Rng, v: i64, signed: bool) -> String {
    match rng.below(8) {
        0 if v >= 0 => format!("+{}", v),
        1 => if v >= 0 { format!("00{}", v) } else { format!("-00{}", -v) },
        2 if v == 0 && signed => "-0".to_string(),
        _ => format!("{}", v),
    }
}

fn spell_flag(rng: &mut Rng, b: bool) -> &'static str {
    if b { "1" } else { *rng.pick(&["0", "0", "0", "2", "01", "true", "-1", "x", "１"]) }
}

/// re-renders the behaviour lines and unk.def of `d` with every spelling the readers accept (same meaning: `infos`/`unks`
/// stay the truth), optionally adds characters with class bits that have no name, and - one case in five - ONE malformed
/// line the readers must reject
fn noise_defs(rng: &mut Rng, mut d: Defs) -> Defs {
    if d.broken { return d; }
    let want_broken = rng.chance(1, 5);
    let files: u8 = if want_broken { rng.below(2) as u8 } else { rng.below(3) as u8 };
    // Unicode white space (U+3000, NBSP, EM SPACE, NEL, LINE SEPARATOR) where `trim` / `split_whitespace` accept it: in unk.def,
    // and in the behaviour lines when they live in a file of their own (the grammar's char.def is C17's business)
    let uni_md = files == 2 && rng.chance(1, 2);
    let uni_unk = rng.chance(1, 3);
    if uni_md { d.note = "unicode-white-space-in-behaviour-lines".into(); }
    let eol = if rng.chance(1, 4) { "\r\n" } else { "\n" };
    let ranges: Vec<String> = d.char_def.lines().filter(|l| l.trim_start().starts_with("0x")).map(|l| l.to_string()).collect();
    let mut cd = String::new();
    for l in &ranges { cd.push_str(l); cd.push_str(eol); }
    // characters with class bits that belong to no named class (hex literal in the range line)
    if rng.chance(1, 5) && !d.pool.is_empty() {
        let c = *rng.pick(&d.pool);
        let extra: u32 = *rng.pick(&[0x8000u32, 0x10_0000, 0x2000_0000, 0x18000]);
        let base = d.assign.iter().filter(|x| x.0 == c).fold(0, |a, x| a | x.1);
        if base & ALLM != ALLM {
            match rng.below(3) {
                0 => cd.push_str(&format!("0x{:04X} 0x{:x}{}", c as u32, extra, eol)),
                1 => {
                    let low = 1u32 << (base | 1).trailing_zeros();
                    cd.push_str(&format!("0x{:04X} {}|0x{:X}{}", c as u32, name_of(low), extra, eol));
                    d.assign.push((c, low));
                }
                _ => cd.push_str(&format!("0x{:04X}..0x{:04X} 0x+{:x} # unnamed{}", c as u32, c as u32, extra, eol)),
            }
            d.assign.push((c, extra));
            d.note = "unnamed-class-bits".to_string();
        }
    }
    let mut md = String::new();
    if rng.chance(1, 6) { md.push_str(eol); md.push_str("   \t"); md.push_str(eol); }
    for info in &d.infos {
        let sep = |rng: &mut Rng| -> &'static str {
            if uni_md { *rng.pick(&[" ", "\u{3000}", "\u{a0}", "\u{2003}\t", "\u{85}", " \u{2028} "]) } else { *rng.pick(&[" ", " ", "\t", "  ", " \t "]) }
        };
        let lead = if uni_md { *rng.pick(&["", "\u{3000}", "\u{2029}\t", " "]) } else { *rng.pick(&["", "", "", " ", "\t", "  "]) };
        let tail = if uni_md { *rng.pick(&["", "\u{3000}", "\u{a0}# c", "\u{205f}9"]) } else { *rng.pick(&["", "", "", " ", " # comment", "\t# 漢字 👍", " 7 8 9", " 0x41"]) };
        md.push_str(&format!("{}{}{}{}{}{}{}{}{}{}", lead, spell_class(rng, info.cat, false), sep(rng), spell_flag(rng, info.invoke), sep(rng),
            spell_flag(rng, info.group), sep(rng), spell_num(rng, info.length as i64, false), tail, eol));
        if rng.chance(1, 10) { md.push_str(&format!("  # indented comment{}", eol)); }
    }
    let mut ud = String::new();
    for u in &d.unks {
        let lead = if uni_unk { *rng.pick(&["", "\u{3000}", "\u{a0}\t", "\u{2003}"]) } else { *rng.pick(&["", "", "", " ", "\t"]) };
        let tail = if uni_unk { *rng.pick(&["", "\u{3000}", ",x\u{a0}", "\u{1680}"]) } else { *rng.pick(&["", "", "", " ", ",extra", ",,", ",a,b,c"]) };
        let class = if uni_unk && rng.chance(1, 2) {
            // the class column is trimmed by the flag parser (Unicode white space), piece by piece
            match rng.below(3) { 0 => format!("{}\u{3000}", name_of(u.cat)), 1 => format!("\u{a0}{}", name_of(u.cat)), _ => format!("{}\u{2003}|\u{3000}{}", name_of(u.cat), name_of(u.cat)) }
        } else { spell_class(rng, u.cat, true) };
        ud.push_str(&format!("{}{},{},{},{},{}{}{}", lead, class, spell_num(rng, u.l as i64, true), spell_num(rng, u.r as i64, true),
            spell_num(rng, u.cost as i64, true), POS[u.pos].join(","), tail, eol));
        if rng.chance(1, 10) { ud.push_str(&format!(" # comment, with, commas,,,,,,,,,,{}", eol)); }
        if rng.chance(1, 15) { ud.push_str(eol); }
    }
    if uni_unk && d.note.is_empty() { d.note = "unicode-white-space-in-unk.def".into(); }
    // ---- one malformed line
    if want_broken {
        let some_info = d.infos.first().cloned();
        let nl = d.dims.map_or(N_IDS, |x| x.0);
        let nr = d.dims.map_or(N_IDS, |x| x.1);
        let pos0 = POS[0].join(",");
        let mut raw: Option<Vec<u8>> = None;
        let (which, in_md, line): (&str, bool, String) = match rng.below(26) {
            0 => ("length-2^32", true, "USER4 1 1 4294967296".into()),
            1 => ("length-negative", true, "USER4 1 1 -1".into()),
            2 => ("length-not-a-number", true, "USER4 1 1 1.0".into()),
            3 => ("three-columns", true, "USER4 1 1".into()),
            4 => ("class-lowercase", true, "user4 1 1 0".into()),
            5 => ("class-empty-piece", true, "USER4| 1 1 0".into()),
            6 => ("class-hex-overflow", true, "USER4|0x100000000 1 1 0".into()),
            7 => match &some_info { Some(i) if i.cat.count_ones() == 1 => ("duplicate-key-other-spelling", true, format!("{}|0x{:x} 0 0 0", name_of(i.cat), i.cat)), _ => ("three-columns", true, "USER3 0".into()) },
            8 => ("unk-id-32768", false, format!("DEFAULT,32768,0,0,{}", pos0)),
            9 => ("unk-cost-below-i16", false, format!("DEFAULT,0,0,-32769,{}", pos0)),
            10 => ("unk-space-in-number", false, format!("DEFAULT, 0,0,0,{}", pos0)),
            11 => ("unk-negative-id", false, format!("DEFAULT,-1,0,0,{}", pos0)),
            12 => ("unk-nine-columns", false, "DEFAULT,0,0,0,名詞,普通名詞,一般,*,*".into()),
            13 => ("unk-right-id=num_right", false, format!("DEFAULT,0,{},0,{}", nr, pos0)),
            14 => ("unk-left-id=num_left", false, format!("DEFAULT,{},0,0,{}", nl, pos0)),
            15 => ("unk-class-with-unnamed-bit", false, format!("DEFAULT|0x8000,0,0,0,{}", pos0)),
            16 => ("unk-empty-number", false, format!("DEFAULT,,0,0,{}", pos0)),
            17 => ("unk-pos-five-components-then-extra", false, "DEFAULT,0,0,0,名詞,普通名詞,一般,*,*,extra".into()),
            18 => ("unk-class-empty", false, format!(",0,0,0,{}", pos0)),
            19 => ("unk-plus-minus", false, format!("DEFAULT,+-1,0,0,{}", pos0)),
            20 => ("unk-u3000-in-number", false, format!("DEFAULT,0\u{3000},0,0,{}", pos0)),
            21 => ("unk-pos-with-trailing-nbsp", false, format!("DEFAULT,0,0,0,名詞,普通名詞,一般,*,*,*\u{a0},x")),
            k => {
                // a line that is not UTF-8 (in a COMMENT: the reader fails while reading the line, before looking at it)
                let bad: &[u8] = match k { 22 => &[0xFF], 23 => &[0xC0, 0x80], 24 => &[0xED, 0xA0, 0x80], _ => &[0xE3, 0x81] };
                let mut b = ud.as_bytes().to_vec();
                b.extend_from_slice(b"# ");
                b.extend_from_slice(bad);
                if k != 25 { b.extend_from_slice(eol.as_bytes()); }
                raw = Some(b);
                (match k { 22 => "unk-not-utf8:FF", 23 => "unk-not-utf8:overlong-C0-80", 24 => "unk-not-utf8:surrogate-ED-A0-80", _ => "unk-not-utf8:truncated-at-end-of-file" }, false, String::new())
            }
        };
        // the unk.def lines refer to DEFAULT: it must have a behaviour line for the intended error to be the only one
        if !in_md && raw.is_none() && !d.infos.iter().any(|i| i.cat == DEFAULT) {
            md.push_str(&format!("DEFAULT 0 1 0{}", eol));
            d.infos.push(Info { cat: DEFAULT, invoke: false, group: true, length: 0 });
        }
        let unk_ge_only = which.starts_with("unk-right-id=") || which.starts_with("unk-left-id=");
        if raw.is_none() { if in_md { md.push_str(&line); md.push_str(eol); } else { ud.push_str(&line); ud.push_str(eol); } }
        d.broken = true;
        // an id EQUAL to the dimension is rejected only by the repaired reader (`>=`, D15b)
        d.must_fail = !unk_ge_only || source_unk_ge();
        d.unk_def = ud.clone();
        d.unk_raw = raw;
        d.char_def = format!("{}{}", cd, md);
        d.mecab_def = None;
        d.files = files;
        d.note = which.to_string();
        return d;
    }
    // no trailing end-of-line
    if rng.chance(1, 5) && ud.ends_with(eol) { ud.truncate(ud.len() - eol.len()); }
    if rng.chance(1, 5) && md.ends_with(eol) { md.truncate(md.len() - eol.len()); }
    d.unk_def = ud;
    d.files = files;
    match files {
        // behaviour lines in a file of their own; the grammar's char.def then carries OTHER behaviour lines (ignored by the grammar)
        2 => {
            d.mecab_def = Some(if rng.chance(1, 2) { md } else { format!("{}{}", cd, md) });
            d.char_def = format!("{}DEFAULT 1 1 9{}KANJI 1 1 9{}", cd, eol, eol);
        }
        _ => { d.char_def = format!("{}{}", cd, md); }
    }
    d
}

/// characters with two or three classes whose behaviour lines MIX the GROUP flag (a lower-bit class grouped and a higher-bit
/// one not, and vice versa), LENGTH at least the run; texts made of runs of such characters followed by single-class ones
fn mixed_defs(rng: &mut Rng) -> (Defs, String) {
    let mut d = Defs::default();
    let mut cl: Vec<u32> = vec![];
    while cl.len() < 3 { let c = *rng.pick(PLAIN); if !cl.contains(&c) { cl.push(c); } }
    cl.sort();
    let (x, y, z) = (cl[0], cl[1], cl[2]);
    let two = *rng.pick(&[(x, y), (x, z), (y, z)]);
    let chars: Vec<(char, u32)> = vec![('ー', two.0 | two.1), ('〇', x | y | z), ('あ', x), ('ア', y), ('漢', z), ('é', x | z), ('1', 16 | 2048)];
    for &(c, m) in &chars {
        let names = names_of(m);
        if names.len() >= 2 && rng.chance(1, 2) {
            d.char_def.push_str(&format!("0x{:04X} {}\n0x{:04X} {}\n", c as u32, names[0], c as u32, names[1..].join(" ")));
        } else {
            d.char_def.push_str(&format!("0x{:04X} {}\n", c as u32, names.join(" ")));
        }
        d.pool.push(c);
        d.assign.push((c, m));
    }
    let pattern: [bool; 3] = *rng.pick(&[[true, false, true], [false, true, false], [true, false, false], [false, true, true], [true, true, false], [false, false, true]]);
    let order: Vec<usize> = if rng.chance(1, 2) { vec![0, 1, 2] } else { vec![2, 0, 1] }; // file order of the lines is not bit order
    for &k in &order {
        let info = Info { cat: cl[k], invoke: rng.chance(3, 4), group: pattern[k], length: *rng.pick(&[1u32, 2, 3, 3, 4, 5, 70]) };
        d.char_def.push_str(&format!("{} {} {} {}\n", name_of(info.cat), info.invoke as u8, info.group as u8, info.length));
        d.infos.push(info);
    }
    if rng.chance(1, 3) { d.char_def.push_str("DEFAULT 0 1 0\n"); d.infos.push(Info { cat: DEFAULT, invoke: false, group: true, length: 0 }); }
    for info in d.infos.clone() {
        for _ in 0..rng.range(1, 2) {
            d.unks.push(Unk { cat: info.cat, l: small_id(rng), r: small_id(rng), cost: small_cost(rng), pos: rng.below(POS.len()) });
        }
    }
    if rng.chance(1, 2) { let n = d.unks.len(); for i in (1..n).rev() { let j = rng.below(i + 1); d.unks.swap(i, j); } }
    for u in &d.unks {
        d.unk_def.push_str(&format!("{},{},{},{},{}\n", name_of(u.cat), u.l, u.r, u.cost, POS[u.pos].join(",")));
    }
    // text: runs of multi-class characters, then something that ends the run
    let mut text = String::new();
    for _ in 0..rng.range(1, 3) {
        let m = *rng.pick(&['ー', 'ー', '〇', 'é']);
        for _ in 0..rng.range(1, 3) { text.push(m); }
        if rng.chance(2, 3) { text.push(*rng.pick(&['あ', 'ア', '漢', '1', '〇', 'ー'])); }
    }
    (d, text)
}

/// the witness of seeded change C13c: `HIRAGANA 0 1 2`, `KATAKANA 1 0 2`, U+30FC = HIRAGANA|KATAKANA, text `ーー京`
fn c13c_defs() -> Defs {
    let mut d = Defs::default();
    d.pool = vec!['ー', '京', 'あ'];
    d.assign = vec![('ー', 64 | 128), ('京', 4), ('あ', 64)];
    d.char_def = "0x30FC HIRAGANA KATAKANA\n0x4EAC KANJI\n0x3042 HIRAGANA\nHIRAGANA 0 1 2\nKATAKANA 1 0 2\nKANJI 0 0 1\n".to_string();
    d.infos = vec![Info { cat: 64, invoke: false, group: true, length: 2 }, Info { cat: 128, invoke: true, group: false, length: 2 }, Info { cat: 4, invoke: false, group: false, length: 1 }];
    d.unks = vec![Unk { cat: 64, l: 1, r: 1, cost: 20000, pos: 0 }, Unk { cat: 128, l: 2, r: 3, cost: 100, pos: 5 }, Unk { cat: 4, l: 4, r: 4, cost: 300, pos: 0 }];
    d.unk_def = format!("HIRAGANA,1,1,20000,{}\nKATAKANA,2,3,100,{}\nKANJI,4,4,300,{}\n", POS[0].join(","), POS[5].join(","), POS[0].join(","));
    d
}

/// LENGTH at the limits of `u32`
fn u32_defs(length: &str, ok: bool) -> Defs {
    let mut d = Defs::default();
    d.pool = vec!['a', 'b', '漢'];
    d.assign = vec![('a', 32), ('b', 32), ('漢', 4)];
    d.char_def = format!("0x61..0x7A ALPHA\n0x6F22 KANJI\nALPHA 1 0 {}\nKANJI 0 0 1\n", length);
    d.infos = vec![Info { cat: 32, invoke: true, group: false, length: u32::MAX }, Info { cat: 4, invoke: false, group: false, length: 1 }];
    d.unks = vec![Unk { cat: 32, l: 1, r: 2, cost: 100, pos: 0 }, Unk { cat: 4, l: 2, r: 2, cost: 300, pos: 1 }];
    d.unk_def = format!("ALPHA,1,2,100,{}\nKANJI,2,2,300,{}\n", POS[0].join(","), POS[1].join(","));
    if !ok { d.broken = true; d.must_fail = true; }
    d
}

pub fn run(run: &mut Run) {
    run.rule = "random char.def (2-4 plain classes, multi-class characters, ALL(+NOOOVBOW/NOOOVBOW2) marks, NOOOVBOW letters, unions over \
two lines) + class behaviour lines (invoke/group/length 0-4 or 60-80, ALL/NOOOVBOW keys, classes without behaviour) + unk.def (0-3 lines per \
class, interleaved, ids up to the matrix size, occasionally broken files); texts of 1-10 characters over the pool or 60-140 characters over \
1-3 characters; kinds: buf (tables + prefix/context relation), prov (one provider, every offset x created masks incl. the saturated bit and \
existing ends), lat (1-4 providers in every order, random lexicon, optional NFKC input plugin; all lattice nodes + every provide_oov call \
the real builder makes, observed through wrapped providers; a third of the lat cases use the shipped shape of char.def around joiners: \
ALPHA/GREEK/CYRILLIC letters with 1-3 character candidates, ZWJ/ZWNJ = ALL NOOOVBOW2, combining mark = ALL NOOOVBOW, MeCab before the \
fallback), info (OOV morphemes). Third round: every 20th case = characters with two or three classes whose behaviour lines MIX the \
GROUP flag (lower-bit class grouped / higher-bit not and vice versa, LENGTH up to and beyond the run; prov and lat); two in 20 = the SYNTAX of \
the definition files (class keys as NAME|NAME, NAME|0x.. hex literals, bare hex in unk.def, +n / 00n / -0 numbers, flags other than 0/1, tabs, \
leading/trailing blanks, extra columns, CRLF, no final newline, indented comments; one in five with ONE malformed line out of 20 kinds that must \
be rejected), the three shapes of the plugin settings (explicit default names, keys omitted, other file names with decoy behaviour lines in the \
grammar's char.def), 6x4 and 4x6 connection matrices, characters with class bits that have no name (hex literal in a range line); a failing \
lattice run (Err/panic) answers with the provide_oov calls made before the failure. RECYCLED objects: in about a third of the generated \
cases (and directed 36-39) the InputBuffer of buf/prov and the StatefulTokenizer + MorphemeList pair of lat (two swapped buffers) held 1-3 \
earlier texts before the text of the case - one-byte or two-byte DEFAULT characters over the byte length of the text (a word start at every \
byte / every other byte, i.e. inside the multi-byte NOOOVBOW/NOOOVBOW2/ALL characters of the text), the text one byte further, its tail, \
other pool texts, the empty text; the case line carries them as hist= and the expected answer does not depend on them; oracles unchanged. \
non-trivial = multi-class text of >=3 characters (buf), some node produced (prov), some OOV node in the lattice (lat); distinct by full line".into();
    let wd = Workdir::new_legacy("c13");
    let system = build_dic(&fixed_rows(), 77);
    let sp0 = SimpleP { l: 0, r: 0, cost: 0, pos: 0 };
    wd.write("unk.def", "");
    let poslist_hex = {
        let dic = load(&config_json(&wd, &[], &[simple_json(&sp0)], &[], &[]), system.clone(), vec![]).expect("baseline dictionary");
        let s: String = dic.grammar().pos_list.iter().map(|p| format!("{}\n", p.join(","))).collect();
        hex(s.as_bytes())
    };
    let ctx = Ctx { wd, system, poslist_hex };
    let n = run.opts.count;
    let rp0 = RegexP { l: 4, r: 4, cost: 50, pos: 1, alts: vec![AltP { set: vec!['a', 'b'], min: 1, max: None }], max_length: 200, strict: true };
    for idx in 0..n {
        if !run.wants(idx) { continue; }
        let mut rng = Rng::for_case(run.opts.seed, idx);
        // RECYCLED objects in about a third of the generated cases; the history comes from a generator of its own, so
        // the texts and definitions of the cases are those of the rounds before
        let mut hrng = Rng::for_case(run.opts.seed ^ 0x1357_9bdf_2468_ace0, idx);
        let recycled = idx >= 40 && hrng.chance(1, 3);
        set_hist(Hist::default());
        let fail0 = run.failures.len();
        match idx {
            // ---- directed cases
            0 => case_buf(run, &ctx, idx, &d11_defs(), "👍🏻漢"),
            1 => case_buf(run, &ctx, idx, &d11_defs(), "👍🏻"),
            2 => {
                let lc = LatCase { provs: vec![Prov::M, Prov::S], sp: SimpleP { l: 0, r: 0, cost: 30000, pos: 3 }, rp: rp0.clone(), lex: fixed_rows(), normalise: false };
                case_lat(run, &ctx, idx, &d11_defs(), "👍🏻漢", &lc)
            }
            3 => {
                let lc = LatCase { provs: vec![Prov::M, Prov::S], sp: SimpleP { l: 0, r: 0, cost: 30000, pos: 3 }, rp: rp0.clone(), lex: fixed_rows(), normalise: false };
                case_lat(run, &ctx, idx, &d11_defs(), "👍🏻", &lc)
            }
            4 => case_prov(run, &ctx, idx, &alpha_defs(), &"a".repeat(70), Prov::R, &sp0, &rp0, &mut rng, &[]),
            5 => case_prov(run, &ctx, idx, &alpha_defs(), &format!("{}あ", "ab".repeat(33)), Prov::M, &sp0, &rp0, &mut rng, &[]),
            6 => case_prov(run, &ctx, idx, &alpha_defs(), "abあ", Prov::M, &sp0, &rp0, &mut rng, &[]),
            7 => {
                // a pattern that matches the empty string: `CreatedWords::single(0)` (reported for information)
                let rp = RegexP { alts: vec![AltP { set: vec!['a'], min: 0, max: None }], ..rp0.clone() };
                case_prov(run, &ctx, idx, &alpha_defs(), "bあa", Prov::R, &sp0, &rp, &mut rng, &[])
            }
            8 => {
                let lc = LatCase { provs: vec![Prov::R, Prov::M, Prov::S], sp: sp0.clone(), rp: rp0.clone(), lex: fixed_rows(), normalise: true };
                case_lat(run, &ctx, idx, &alpha_defs(), "ＡbあＢ", &lc)
            }
            9 => {
                let lc = LatCase { provs: vec![Prov::M], sp: sp0.clone(), rp: rp0.clone(), lex: fixed_rows(), normalise: false };
                case_lat(run, &ctx, idx, &alpha_defs(), "aあ漢", &lc)
            }
            10..=14 => {
                // matches of exactly 62..66 characters against masks around the saturated bit
                let k = 62 + (idx - 10);
                let rp = RegexP { strict: false, ..rp0.clone() };
                let mut extra = vec![];
                for bit in [60u32, 61, 62, 63] {
                    extra.push((0usize, 1u64 << bit, vec![]));
                    extra.push((0, 1u64 << bit, vec![k]));
                    extra.push((0, 1u64 << bit, vec![k + 1, k - 1]));
                    extra.push((1, 1u64 << bit, vec![k]));
                }
                case_prov(run, &ctx, idx, &alpha_defs(), &format!("{}あ", "a".repeat(k)), Prov::R, &sp0, &rp, &mut rng, &extra)
            }
            15..=19 => {
                // a dictionary word of 62..66 characters and a regex match one character shorter / equal
                let k = 62 + (idx - 15);
                let mut lex = fixed_rows();
                lex.push(Row::simple(&"a".repeat(k), 1, 1, 10, 0));
                let rp = RegexP { strict: false, alts: vec![AltP { set: vec!['a'], min: 1, max: Some(if idx % 2 == 0 { k - 1 } else { k }) }], ..rp0.clone() };
                let lc = LatCase { provs: vec![Prov::R, Prov::S], sp: sp0.clone(), rp, lex, normalise: false };
                case_lat(run, &ctx, idx, &alpha_defs(), &format!("{}あ", "a".repeat(k)), &lc)
            }
            20..=25 => {
                // which positions call the providers: the character's class decides, not `can_bow`.
                //   ab        position 1 continues an ALPHA word (can_bow false) but is reached through the 1-character
                //             candidate and the providers ARE asked there;
                //   a<ZWJ>Ω   position 2 follows a NOOOVBOW2 character (can_bow false), reached through the 2-character
                //             candidate `a<ZWJ>` (class ALL joins the run): providers asked; position 1 (the joiner
                //             itself) is reached too: providers skipped, the fallback is called once;
                //   the same with ZWNJ, with a hiragana after the joiner, a leading joiner, and MeCab as the ONLY provider
                //   (the re-invocation of the last provider then asks MeCab at the joiner).
                let texts = ["ab", "a\u{200d}Ω", "a\u{200c}あb", "\u{200d}aΩ", "a\u{200d}\u{200d}Ωb", "a\u{200d}Ω"];
                let provs = if idx == 25 { vec![Prov::M] } else { vec![Prov::M, Prov::S] };
                let lc = LatCase { provs, sp: SimpleP { l: 5, r: 5, cost: 7000, pos: 3 }, rp: rp0.clone(), lex: fixed_rows(), normalise: false };
                case_lat(run, &ctx, idx, &zw_fixed_defs(), texts[idx - 20], &lc)
            }
            26 | 28 => {
                // seeded change C13c: U+30FC = HIRAGANA|KATAKANA, the lower-bit class groups, the higher-bit one does not
                case_prov(run, &ctx, idx, &c13c_defs(), if idx == 26 { "ーー京" } else { "あーーあー" }, Prov::M, &sp0, &rp0, &mut rng, &[])
            }
            27 => {
                let lc = LatCase { provs: vec![Prov::M, Prov::S], sp: SimpleP { l: 5, r: 5, cost: 7000, pos: 3 }, rp: rp0.clone(), lex: fixed_rows(), normalise: false };
                case_lat(run, &ctx, idx, &c13c_defs(), "ーー京", &lc)
            }
            29 | 30 | 31 => {
                // LENGTH at the limits of u32: 4294967295 is read (and the 1..n loop stops at the run), 4294967296 is rejected
                let (txt, ok) = [("4294967295", true), ("4294967296", false), ("+4294967295", true)][idx - 29];
                let q = vec![(0usize, 0u64, vec![]), (1, 0, vec![]), (0, 1, vec![1]), (1, 2, vec![])];
                case_prov_q(run, &ctx, idx, &u32_defs(txt, ok), "ab漢", Prov::M, &sp0, &rp0, &mut rng, &q, true)
            }
            32 | 33 => {
                // a run that ends in EosBosDisconnect after several provider calls (no fallback): the calls are compared too
                let provs = if idx == 32 { vec![Prov::R, Prov::M] } else { vec![Prov::M, Prov::M] };
                let lc = LatCase { provs, sp: sp0.clone(), rp: rp0.clone(), lex: fixed_rows(), normalise: false };
                case_lat(run, &ctx, idx, &alpha_defs(), "abあ漢a", &lc)
            }
            34 | 35 => {
                // finding NEW-C13-1: the shipped line `KANJI 0 0 2` on a text that ENDS in a kanji - the one-character candidate twice
                case_prov(run, &ctx, idx, &d11_defs(), if idx == 34 { "漢" } else { "👍漢漢" }, Prov::M, &sp0, &rp0, &mut rng, &[])
            }
            36..=39 => {
                // RECYCLED objects (seeded change C13e: a table `reset` does not clear + a byte-wise scan of it): after a
                // text of one-byte characters (a word start at every byte) the same buffer holds a text whose NOOOVBOW /
                // NOOOVBOW2 / class-ALL characters are multi-byte: the fallback candidate of U+3091 still spans the small
                // kana / the combining mark / the joiner and its successor
                let d = recycle_defs();
                let lc = LatCase { provs: vec![Prov::M, Prov::S], sp: SimpleP { l: 2, r: 3, cost: 5000, pos: 3 }, rp: rp0.clone(), lex: fixed_rows(), normalise: false };
                match idx {
                    // the clause itself: the fallback candidate reaches to the next permissible word start
                    36 => { set_hist(Hist { texts: vec!["1234567890".into()], collect: vec![false] }); case_prov(run, &ctx, idx, &d, "ゑァゑ", Prov::S, &lc.sp, &rp0, &mut rng, &[]) }
                    // tokenizer and list swap two buffers: the stale table is the one of the last-but-one analysis
                    37 => { set_hist(Hist { texts: vec!["1234567890".into(), "#".into()], collect: vec![true, true] }); case_lat(run, &ctx, idx, &d, "ゑァゑ", &lc) }
                    38 => { set_hist(Hist { texts: vec!["%%%%%%%%%%%%%%%%%%%%%%%%".into()], collect: vec![false] }); case_lat(run, &ctx, idx, &d, "ゑ\u{301}ゑ\u{200d}ゑァa", &lc) }
                    _ => { set_hist(Hist { texts: vec!["1234567890".into()], collect: vec![false] }); case_buf(run, &ctx, idx, &d, "ゑァゑ") }
                }
            }
            // ---- generated cases
            _ => {
                let kind20 = idx % 20;
                let kind = idx % 10;
                if kind20 == 12 {
                    // tables of characters with unnamed class bits / CRLF / other spellings
                    let d0 = gen_defs(&mut rng, false, false);
                    let d = noise_defs(&mut rng, d0);
                    let text = gen_text(&mut rng, &d.pool, &[]);
                    if !d.note.is_empty() { run.bump(&format!("buf:noise:{}", d.note)); }
                    if recycled { set_hist(gen_hist(&mut hrng, &d.pool, &text)); }
                    if !d.broken { case_buf(run, &ctx, idx, &d, &text); }
                } else if kind20 == 15 || kind20 == 16 {
                    // the syntax of the two files, settings shapes, non-square matrices
                    let mut d = gen_defs(&mut rng, false, false);
                    if !d.broken && rng.chance(1, 3) {
                        let dims = *rng.pick(&[(6usize, 4usize), (4, 6)]);
                        for u in d.unks.iter_mut() { u.l %= dims.0 as u16; u.r %= dims.1 as u16; }
                        d.dims = Some(dims);
                    }
                    let d = noise_defs(&mut rng, d);
                    run.bump(if d.must_fail { "prov:noise:malformed" } else { "prov:noise:well-formed-spellings" });
                    if !d.note.is_empty() { run.bump(&format!("prov:noise:{}", d.note)); }
                    let text = gen_text(&mut rng, &d.pool, &[]);
                    let sp = gen_simple(&mut rng);
                    let rp = gen_regex(&mut rng, &d.pool, true);
                    if recycled { set_hist(gen_hist(&mut hrng, &d.pool, &text)); }
                    case_prov(run, &ctx, idx, &d, &text, Prov::M, &sp, &rp, &mut rng, &[]);
                } else if kind20 == 17 {
                    let (d, text) = mixed_defs(&mut rng);
                    run.bump("prov:mixed-group-definitions");
                    if recycled { set_hist(gen_hist(&mut hrng, &d.pool, &text)); }
                    case_prov(run, &ctx, idx, &d, &text, Prov::M, &sp0, &rp0, &mut rng, &[]);
                } else if kind20 == 18 {
                    if rng.chance(1, 2) {
                        let (d, text) = mixed_defs(&mut rng);
                        let mut lc = gen_lat(&mut rng, &d);
                        if !lc.provs.iter().any(|p| matches!(p, Prov::M)) { lc.provs.insert(0, Prov::M); }
                        lc.normalise = false;
                        run.bump("lat:mixed-group-definitions");
                        if recycled { set_hist(gen_hist(&mut hrng, &d.pool, &text)); }
                        case_lat(run, &ctx, idx, &d, &text, &lc);
                    } else {
                        let d0 = gen_defs(&mut rng, false, false);
                    let d = noise_defs(&mut rng, d0);
                        let mut lc = gen_lat(&mut rng, &d);
                        if !lc.provs.iter().any(|p| matches!(p, Prov::M)) { lc.provs.insert(0, Prov::M); }
                        lc.normalise = false;
                        run.bump("lat:noise-definitions");
                        let text = gen_text(&mut rng, &d.pool, &[]);
                        if d.must_fail { run.bump("lat:noise:malformed"); }
                        if recycled { set_hist(gen_hist(&mut hrng, &d.pool, &text)); }
                        case_lat(run, &ctx, idx, &d, &text, &lc);
                    }
                } else if kind == 9 {
                    let d = zw_defs(&mut rng);
                    let lc = zw_lat(&mut rng, &d);
                    let text = zw_text(&mut rng);
                    run.bump("lat:joiner-texts");
                    if recycled { set_hist(gen_hist(&mut hrng, &d.pool, &text)); }
                    case_lat(run, &ctx, idx, &d, &text, &lc);
                } else if kind < 3 {
                    let d = gen_defs(&mut rng, false, false);
                    let text = gen_text(&mut rng, &d.pool, &[]);
                    if recycled { set_hist(gen_hist(&mut hrng, &d.pool, &text)); }
                    case_buf(run, &ctx, idx, &d, &text);
                } else if kind < 7 {
                    let d = gen_defs(&mut rng, false, true);
                    let text = gen_text(&mut rng, &d.pool, &[]);
                    let sp = gen_simple(&mut rng);
                    let rp = gen_regex(&mut rng, &d.pool, true);
                    let k = match rng.below(5) { 0 | 1 => Prov::M, 2 => Prov::S, _ => Prov::R };
                    if recycled { set_hist(gen_hist(&mut hrng, &d.pool, &text)); }
                    case_prov(run, &ctx, idx, &d, &text, k, &sp, &rp, &mut rng, &[]);
                } else {
                    let norm = rng.chance(1, 3);
                    let d = gen_defs(&mut rng, norm, false);
                    let mut lc = gen_lat(&mut rng, &d);
                    lc.normalise = norm;
                    let text = gen_text(&mut rng, &d.pool, if norm { NORMALISED } else { &[] });
                    if recycled { set_hist(gen_hist(&mut hrng, &d.pool, &text)); }
                    case_lat(run, &ctx, idx, &d, &text, &lc);
                }
            }
        }
        // a failure on recycled objects names the earlier texts (the case line carries them as `hist=`)
        let hw = hist_words(&cur_hist());
        if !hw.is_empty() { for f in run.failures[fail0..].iter_mut() { f.what.push_str(&hw); } }
        set_hist(Hist::default());
    }
}
