//! C09: modes A and B refine mode C with exactly the dictionary's split units.
//!
//! Streams (one case line each):
//! * `split`  — a text is tokenised with a C tokenizer, a "direct" tokenizer brought to mode A/B by a
//!   sequence of `new/set_subset/set_mode` calls, and every C morpheme is split on demand
//!   (`Morpheme::split_into`, `MorphemeList::split_into`).  The Lean model gets the declared lexicon
//!   (key byte lengths + stored split ids computed from the CSV rows by this file, NOT read back from
//!   the binary), the offset tables of the buffer and the C path, and must reproduce the direct path
//!   and every on-demand answer.
//! * `winfo`  — `LexiconSet::get_word_info_subset` for every word of every dictionary (re-stamping).
//! * `subset` — random `set_mode`/`set_subset` call sequences (state via `verif_state`).
//!
//! The oracle is independent of the model: it resolves the declared units from the CSV rows and
//! compares the four token sequences with them.
use crate::common::*;
use crate::dict::*;
use std::collections::BTreeSet;
use sudachi::analysis::stateful_tokenizer::StatefulTokenizer;
use sudachi::analysis::Mode;
use sudachi::dic::dictionary::JapaneseDictionary;
use sudachi::dic::subset::InfoSubset;
use sudachi::dic::word_id::WordId;
use sudachi::prelude::*;

const CASES_PER_WORLD: usize = 20;
const N_DIRECTED: usize = 4;
const HWL: u32 = 2;
const SPLIT_A: u32 = 64;
const SPLIT_B: u32 = 128;
const MAX_WORD: u32 = 0x0fff_ffff;

// ---------------------------------------------------------------------------------------------
// worlds

struct DictSpec {
    rows: Vec<Row>,
    pos: Vec<[String; 6]>,
}

struct W9 {
    _wd: Workdir,
    dic: JapaneseDictionary,
    dicts: Vec<DictSpec>,
    /// per dictionary, per row: (stored A ids, stored B ids) exactly as the binary holds them
    stored: Vec<Vec<(Vec<u32>, Vec<u32>)>>,
    illformed: bool,
    desc: Vec<String>,
    lex_wire: String,
    /// the same binaries loaded with the first 0, 1, ... path-rewrite plugins only (`stages[k]` has `k` of them; the full
    /// dictionary is `dic`): their mode-C paths are the paths BETWEEN the plugins, from which the grouping of the joined
    /// nodes is read (which runs are joined is C14/C15's subject; what the joined node looks like to the splitter is C09's)
    stages: Vec<JapaneseDictionary>,
    /// kind of every path-rewrite plugin in configuration order: 'N' JoinNumeric (concat_nodes), 'K' JoinKatakanaOov (concat_oov_nodes)
    kinds: Vec<char>,
}

fn mode_char(m: Mode) -> char {
    match m { Mode::A => 'A', Mode::B => 'B', Mode::C => 'C' }
}

fn pos_index(pos: &[[String; 6]], f: &[&str]) -> Option<usize> {
    pos.iter().position(|p| p.iter().zip(f.iter()).all(|(a, b)| a == b))
}

/// naive re-implementation of the builder's split resolution, from the CSV rows only
fn resolve_field(field: &str, own: &DictSpec, system: Option<&DictSpec>) -> Option<Vec<u32>> {
    if field.is_empty() || field == "*" {
        return Some(vec![]);
    }
    let user = system.is_some();
    let mut out = vec![];
    for part in field.split('/') {
        let lit = {
            let p = part.strip_prefix('U').unwrap_or(part);
            !p.is_empty() && p.chars().all(|c| c.is_ascii_digit())
        };
        if lit {
            if let Some(p) = part.strip_prefix('U') {
                out.push((1u32 << 28) | p.parse::<u32>().ok()?);
            } else {
                out.push(part.parse::<u32>().ok()?);
            }
        } else {
            let f: Vec<&str> = part.splitn(8, ',').collect();
            if f.len() != 8 { return None; }
            let rd = if f[7] == f[0] { None } else { Some(f[7]) };
            let find = |d: &DictSpec, by_headword: bool| -> Option<usize> {
                d.rows.iter().position(|r| {
                    let key = if by_headword { &r.headword } else { &r.surface };
                    let base = if by_headword { &r.headword } else { &r.surface };
                    let rrd = if &r.reading == base || (by_headword && r.reading.is_empty()) { None } else { Some(r.reading.as_str()) };
                    key == f[0] && pos_index(&d.pos, &f[1..7]) == Some(r.pos) && rrd == rd
                })
            };
            if let Some(i) = find(own, false) {
                out.push(if user { (1u32 << 28) | i as u32 } else { i as u32 });
            } else if let Some(s) = system {
                out.push(find(s, true)? as u32);
            } else {
                return None;
            }
        }
    }
    Some(out)
}

fn inline_ref(d: &DictSpec, i: usize) -> String {
    let r = &d.rows[i];
    let p = &d.pos[r.pos];
    format!("{},{},{},{},{},{},{},{}", r.surface, p[0], p[1], p[2], p[3], p[4], p[5], r.reading)
}

/// can row `i` of `d` be named by an inline reference without ambiguity (in `d` and in `other`)?
fn inline_ok(d: &DictSpec, i: usize, others: &[&DictSpec]) -> bool {
    let r = &d.rows[i];
    if r.headword != r.surface || r.surface.contains(',') || r.surface.contains('/') || r.surface.contains('"') { return false; }
    if r.surface.chars().all(|c| c.is_ascii_digit()) { return false; }
    let same = |x: &Row, dx: &DictSpec| (x.surface == r.surface || x.headword == r.surface) && dx.pos[x.pos] == d.pos[r.pos];
    let mut n = d.rows.iter().filter(|x| same(x, d)).count();
    for o in others { n += o.rows.iter().filter(|x| same(x, o)).count(); }
    n == 1
}

const ATOM_CHARS: &[char] = &['a', 'b', 'é', 'あ', 'い', 'ア', 'イ', 'ー', '東', '京', '都', '𠮷', '0', '1', '株', '式', '会', '社', 'ω'];

fn atom_cost(rng: &mut Rng) -> i32 { 1500 + rng.below(6000) as i32 }
fn comp_cost(rng: &mut Rng) -> i32 { rng.below(2500) as i32 - 3000 }

fn tweak_atom(rng: &mut Rng, r: &mut Row) {
    // headword of a different byte length than the key: head_word_length must come from the key
    if rng.chance(1, 4) {
        r.headword = match rng.below(3) { 0 => format!("{}x", r.surface), 1 => "Ｈ".to_string(), _ => r.surface.to_uppercase() };
        if rng.chance(1, 2) { r.norm = r.headword.clone(); }
    }
    if rng.chance(1, 4) { r.reading = rand_word(rng, &['ア', 'イ', 'ウ', 'カ'], 3); }
    if rng.chance(1, 6) { r.norm = rand_word(rng, &['a', 'あ', '東'], 2); }
}

/// rows of one dictionary; `sys` is the system dictionary when a user dictionary is generated
fn gen_dict(rng: &mut Rng, n_ids: usize, sys: Option<&DictSpec>, uidx: usize) -> DictSpec {
    let mut pos = default_pos();
    if sys.is_some() && rng.chance(1, 2) {
        pos.push(["名詞".into(), "固有名詞".into(), format!("ユーザ{}", uidx), "*".into(), "*".into(), "*".into()]);
    }
    let id = |rng: &mut Rng| rng.below(n_ids) as i32;
    let mut d = DictSpec { rows: vec![], pos };
    let k = rng.range(5, 9);
    let pool: Vec<char> = (0..k).map(|_| *rng.pick(ATOM_CHARS)).collect();
    let natoms = if sys.is_some() { rng.range(1, 4) } else { rng.range(5, 10) };
    if sys.is_none() {
        for p in 0..d.pos.len() {
            let w = rand_word(rng, &pool, 2);
            let (l, r, c) = (id(rng), id(rng), atom_cost(rng));
            d.rows.push(Row::simple(&w, l, r, c, p));
        }
        if rng.chance(1, 2) {
            for w in ["株式", "会社"] {
                let (l, r, c) = (id(rng), id(rng), atom_cost(rng));
                d.rows.push(Row::simple(w, l, r, c, NOUN));
            }
        }
    }
    // numeral family (system dictionary, every other world): numerals of the numeral part of speech and compound numerals
    // WITH declared units (二十 = 二/十, 二十万 = B 二十/万, A 二/十/万; 10 = 1/0): JoinNumeric joins runs headed by them
    if sys.is_none() && rng.chance(1, 2) {
        let base = d.rows.len();
        for w in ["二", "十", "万", "1", "0"] {
            let (l, r, c) = (id(rng), id(rng), atom_cost(rng));
            d.rows.push(Row::simple(w, l, r, c, NUMERAL));
        }
        let num_comp = |rng: &mut Rng, s: &str, a: String, b: String| -> Row {
            let mut r = Row::simple(s, rng.below(n_ids) as i32, rng.below(n_ids) as i32, comp_cost(rng), if rng.chance(5, 6) { NUMERAL } else { NOUN });
            r.mode = 'C'; r.split_a = a; r.split_b = b; r
        };
        let i = |k: usize| (base + k).to_string();
        let b1 = if rng.chance(1, 2) { format!("{}/{}", i(0), i(1)) } else { "*".to_string() };
        let r1 = num_comp(rng, "二十", format!("{}/{}", i(0), i(1)), b1);
        d.rows.push(r1);                                                            // base + 5
        let r2 = num_comp(rng, "10", format!("{}/{}", i(3), i(4)), format!("{}/{}", i(3), i(4)));
        d.rows.push(r2);                                                            // base + 6
        if rng.chance(2, 3) {
            let r3 = num_comp(rng, "二十万", format!("{}/{}/{}", i(0), i(1), i(2)), format!("{}/{}", i(5), i(2)));
            d.rows.push(r3);
        }
        if rng.chance(1, 2) {
            let r4 = num_comp(rng, "十万", format!("{}/{}", i(1), i(2)), "*".into());
            d.rows.push(r4);
        }
    }
    // katakana family (system dictionary, every other world): katakana compounds WITH declared units next to katakana
    // the dictionary does not know (OOV): JoinKatakanaOov joins them, the compound at the head, inside or at the END of the run
    if sys.is_none() && rng.chance(1, 2) {
        let base = d.rows.len();
        for w in ["ア", "イ"] {
            let (l, r, c) = (id(rng), id(rng), atom_cost(rng));
            d.rows.push(Row::simple(w, l, r, c, NOUN));
        }
        let i = |k: usize| (base + k).to_string();
        let mut r1 = Row::simple("アイ", id(rng), id(rng), comp_cost(rng), NOUN);
        r1.mode = 'C'; r1.split_a = format!("{}/{}", i(0), i(1)); r1.split_b = if rng.chance(2, 3) { r1.split_a.clone() } else { "*".into() };
        d.rows.push(r1);                                                            // base + 2
        if rng.chance(2, 3) {
            let mut r2 = Row::simple("イアイ", id(rng), id(rng), comp_cost(rng), rng.below(d.pos.len()));
            r2.mode = 'C'; r2.split_a = format!("{}/{}/{}", i(1), i(0), i(1)); r2.split_b = format!("{}/{}", i(1), i(2));
            d.rows.push(r2);
        }
    }
    for _ in 0..natoms {
        let w = if rng.chance(1, 5) && !d.rows.is_empty() { rng.pick(&d.rows).surface.clone() } else { rand_word(rng, &pool, 2) };
        let mut r = Row::simple(&w, id(rng), id(rng), atom_cost(rng), rng.below(d.pos.len()));
        tweak_atom(rng, &mut r);
        if rng.chance(1, 8) { r.left = -1; r.right = -1; }
        d.rows.push(r);
    }
    // unit = (dict 0 system / 1 own user, row index)
    #[derive(Clone, Copy, PartialEq)]
    struct U(usize, usize);
    let key_of = |d: &DictSpec, u: U| -> String { if u.0 == 0 && sys.is_some() { sys.unwrap().rows[u.1].surface.clone() } else { d.rows[u.1].surface.clone() } };
    let row_of = |d: &DictSpec, u: U| -> Row { if u.0 == 0 && sys.is_some() { sys.unwrap().rows[u.1].clone() } else { d.rows[u.1].clone() } };
    let pick_unit = |rng: &mut Rng, d: &DictSpec| -> U {
        if let Some(s) = sys {
            if rng.chance(1, 2) { return U(0, rng.below(s.rows.len())); }
            U(1, rng.below(d.rows.len()))
        } else {
            U(0, rng.below(d.rows.len()))
        }
    };
    let fmt_units = |rng: &mut Rng, d: &DictSpec, us: &[U]| -> String {
        let parts: Vec<String> = us.iter().map(|&u| {
            let own = !(u.0 == 0 && sys.is_some());
            let inline = rng.chance(1, 6) && if own { inline_ok(d, u.1, &sys.into_iter().collect::<Vec<_>>()) } else { inline_ok(sys.unwrap(), u.1, &[d]) };
            if inline {
                if own { inline_ref(d, u.1) } else { inline_ref(sys.unwrap(), u.1) }
            } else if sys.is_some() && u.0 == 1 { format!("U{}", u.1) } else { u.1.to_string() }
        }).collect();
        parts.join("/")
    };
    let ncomp = rng.range(2, 6);
    for ci in 0..ncomp {
        let nunits = if rng.chance(1, 12) { 1 } else { rng.range(2, 4) };
        let b_units: Vec<U> = (0..nunits).map(|_| pick_unit(rng, &d)).collect();
        // A units: the B units, with units that are themselves split replaced by their A units
        let mut a_units: Vec<U> = vec![];
        for &u in &b_units {
            let r = row_of(&d, u);
            let stored = if u.0 == 0 && sys.is_some() { resolve_field(&r.split_a, sys.unwrap(), None) } else { resolve_field(&r.split_a, &d, sys) };
            match stored {
                Some(ids) if ids.len() >= 2 && rng.chance(3, 4) => {
                    for x in ids {
                        let dicn = (x >> 28) as usize;
                        let w = (x & MAX_WORD) as usize;
                        // a reference of a system word is a system word; of a user word: `U` = own dictionary
                        a_units.push(if u.0 == 0 && sys.is_some() { U(0, w) } else if sys.is_some() { U(dicn, w) } else { U(0, w) });
                    }
                }
                _ => a_units.push(u),
            }
        }
        let key: String = b_units.iter().map(|&u| key_of(&d, u)).collect();
        if key.len() > 60 { continue; }
        let mut row = Row::simple(&key, id(rng), id(rng), comp_cost(rng), rng.below(d.pos.len()));
        let same = a_units.len() == b_units.len();
        match rng.below(6) {
            0 => { row.mode = 'B'; row.split_a = fmt_units(rng, &d, &a_units); }
            1 => { row.mode = 'C'; row.split_a = fmt_units(rng, &d, &a_units); }
            2 => { row.mode = 'C'; row.split_b = fmt_units(rng, &d, &b_units); }
            _ => { row.mode = 'C'; row.split_a = fmt_units(rng, &d, &a_units); row.split_b = fmt_units(rng, &d, &b_units); }
        }
        if same && rng.chance(1, 3) { row.wstruct = "*".into(); }
        if rng.chance(1, 5) { row.headword = format!("{}々", key); }
        if rng.chance(1, 4) { row.reading = rand_word(rng, &['ア', 'イ', 'ウ', 'カ'], 4); }
        if ci == 0 && rng.chance(1, 10) {
            // a word that names itself as its single unit
            row.split_a = if sys.is_some() { format!("U{}", d.rows.len()) } else { d.rows.len().to_string() };
            row.split_b = "*".into();
        }
        d.rows.push(row);
    }
    d
}

/// make the split declarations of one compound ill-formed (units no longer concatenate to the key)
fn break_dict(rng: &mut Rng, d: &mut DictSpec, user: bool) -> bool {
    let lit = |i: usize| if user { format!("U{}", i) } else { i.to_string() };
    let cands: Vec<usize> = (0..d.rows.len()).filter(|&i| d.rows[i].split_a != "*" && d.rows[i].split_a.contains('/')).collect();
    if cands.is_empty() { return false; }
    let i = *rng.pick(&cands);
    let n = d.rows.len();
    let mut parts: Vec<String> = d.rows[i].split_a.split('/').map(|s| s.to_string()).collect();
    if parts.iter().any(|p| p.contains(',')) { return false; }
    match rng.below(3) {
        0 => { parts[0] = lit(i); }                                // first unit = the word itself (too long)
        1 => { let k = rng.below(parts.len()); parts[k] = lit(rng.below(n)); }
        _ => { parts.reverse(); if rng.chance(1, 2) { parts.push(lit(rng.below(n))); } }
    }
    d.rows[i].split_a = parts.join("/");
    true
}

fn lex_wire(dicts: &[DictSpec], stored: &[Vec<(Vec<u32>, Vec<u32>)>]) -> String {
    dicts.iter().zip(stored.iter()).map(|(d, st)| {
        d.rows.iter().zip(st.iter()).map(|(r, (a, b))| format!("{}:{}:{}", r.surface.len(), join(a.iter(), "/"), join(b.iter(), "/"))).collect::<Vec<_>>().join(",")
    }).collect::<Vec<_>>().join(";")
}

fn build_world(tag: &str, n: usize, matrix: &Matrix, dicts: Vec<DictSpec>, illformed: bool, plugins: (bool, &[char]), mut desc: Vec<String>) -> Result<W9, String> {
    let wd = Workdir::new(tag);
    let csv = csv_of(&dicts[0].rows, &dicts[0].pos);
    let system = build_system(csv.as_bytes(), matrix.text().as_bytes())?;
    let mut input = vec![];
    if plugins.0 {
        input.push(r#"{"class":"com.worksap.nlp.sudachi.DefaultInputTextPlugin","rewriteDef":"rewrite.def"}"#.to_string());
    }
    let oov = vec![simple_oov_json(0, 0, 9000)];
    let mut pr = vec![];
    for k in plugins.1 {
        match k {
            'N' => pr.push(r#"{"class":"com.worksap.nlp.sudachi.JoinNumericPlugin","enableNormalize":true}"#.to_string()),
            'n' => pr.push(r#"{"class":"com.worksap.nlp.sudachi.JoinNumericPlugin","enableNormalize":false}"#.to_string()),
            _ => pr.push(format!(r#"{{"class":"com.worksap.nlp.sudachi.JoinKatakanaOovPlugin","oovPOS":{},"minLength":3}}"#, OOV_POS_JSON)),
        }
    }
    let _ = n;
    let cfg = config_json(&wd, &input, &oov, &pr, &[]);
    let mut bins = vec![];
    if dicts.len() > 1 {
        let base = load(&cfg, system.clone(), vec![])?;
        for d in &dicts[1..] {
            let ucsv = csv_of(&d.rows, &d.pos);
            bins.push(build_user(&base, ucsv.as_bytes())?);
        }
    }
    let mut stages = vec![];
    for k in 0..pr.len() {
        let cfgk = config_json(&wd, &input, &oov, &pr[..k], &[]);
        stages.push(load(&cfgk, system.clone(), bins.clone())?);
    }
    let dic = load(&cfg, system, bins)?;
    let mut stored = vec![];
    for (k, d) in dicts.iter().enumerate() {
        let sys = if k == 0 { None } else { Some(&dicts[0]) };
        let mut v = vec![];
        for r in &d.rows {
            let a = resolve_field(&r.split_a, d, sys).ok_or_else(|| format!("oracle cannot resolve {}", r.split_a))?;
            let b = resolve_field(&r.split_b, d, sys).ok_or_else(|| format!("oracle cannot resolve {}", r.split_b))?;
            v.push((a, b));
        }
        stored.push(v);
    }
    desc.push(format!("users:{}", dicts.len() - 1));
    desc.push(format!("plugins:{}{}", if plugins.0 { "D" } else { "-" }, if plugins.1.is_empty() { "-".to_string() } else { plugins.1.iter().collect::<String>() }));
    let lw = lex_wire(&dicts, &stored);
    let kinds: Vec<char> = plugins.1.iter().map(|k| if *k == 'K' { 'K' } else { 'N' }).collect();
    Ok(W9 { _wd: wd, dic, dicts, stored, illformed, desc, lex_wire: lw, stages, kinds })
}

fn directed_world(which: usize, tag: &str) -> Result<W9, String> {
    let n = 2;
    let matrix = Matrix { nl: n, nr: n, cells: vec![0; n * n] };
    let pos = default_pos();
    let atom = |s: &str| Row::simple(s, 0, 0, 5000, NOUN);
    let comp = |s: &str, m: char, a: &str, b: &str| { let mut r = Row::simple(s, 0, 0, -2000, NOUN); r.mode = m; r.split_a = a.into(); r.split_b = b.into(); r };
    if which == 0 {
        let mut rows = vec![
            atom("東京"), atom("都"), comp("東京都", 'C', "0/1", "*"),                   // 0 1 2
            atom("株式"), atom("会社"), comp("株式会社", 'C', "3/4", "*"),               // 3 4 5
            atom("a"), atom("b"), comp("ab", 'C', "6/7", "6/7"),                         // 6 7 8
            atom("é"), atom("𠮷"), comp("aé𠮷", 'C', "6/9/10", "6/é𠮷,名詞,普通名詞,一般,*,*,*,é𠮷"), comp("é𠮷", 'B', "9/10", "*"), // 9 10 11 12
            comp("東京都株式会社", 'C', "0/1/3/4", "2/5"),                                // 13
            atom("ア"), comp("アア", 'C', "14/14", "*"),                                   // 14 15
        ];
        rows[6].headword = "AAA".into();
        rows[0].reading = "トウキョウ".into();
        let mut homograph = atom("都"); homograph.pos = 5; rows.push(homograph);          // 16
        rows.push(comp("都", 'C', "16", "*"));                                           // 17: one declared unit
        // unit lists at the u8 boundary of 4 x count: 64 and 100 A units (the format allows 127), B = two halves
        rows.push(atom("ん"));                                                              // 18
        rows.push(comp(&"ん".repeat(32), 'C', &vec!["18"; 32].join("/"), "*"));            // 19
        rows.push(comp(&"ん".repeat(64), 'C', &vec!["18"; 64].join("/"), "19/19"));        // 20
        rows.push(comp(&"ん".repeat(100), 'C', &vec!["18"; 100].join("/"), "20/19/18/18/18/18")); // 21
        let sys = DictSpec { rows, pos: pos.clone() };
        let u1 = DictSpec { pos: pos.clone(), rows: vec![atom("い"), comp("東京い", 'C', "0/U0", "*"), comp("い都い", 'C', "U0/1/U0", "U0/1/U0")] };
        let u2 = DictSpec { pos: pos.clone(), rows: vec![atom("あ"), atom("ー"), comp("あー", 'C', "U0/U1", "U0/U1"), comp("あー都", 'C', "U0/U1/1", "U2/1")] };
        build_world(tag, n, &matrix, vec![sys, u1, u2], false, (true, &[]), vec!["directed:wellformed".into()])
    } else if which == 2 {
        // two and three user dictionaries, U-references inside the 2nd and 3rd one (re-stamping visible: the builder
        // stores `U<n>` as dictionary 1), the first user dictionary SHORTER than the others and with other words at
        // the same numbers; analysed with single-flag subsets (see split_case)
        let sys = DictSpec { pos: pos.clone(), rows: vec![atom("東京"), atom("都"), atom("a"), atom("b")] };
        let u1 = DictSpec { pos: pos.clone(), rows: vec![atom("い"), atom("ろは"), comp("いろは", 'C', "U0/U1", "U0/U1")] };
        let u2 = DictSpec { pos: pos.clone(), rows: vec![atom("あ"), atom("ー"), atom("は"), comp("あー", 'C', "U0/U1", "*"),
            comp("あーは", 'C', "U0/U1/U2", "U3/U2"), comp("あ都", 'C', "U0/1", "U0/1")] };
        let u3 = DictSpec { pos: pos.clone(), rows: vec![atom("か"), atom("きく"), comp("かきく", 'C', "か,名詞,普通名詞,一般,*,*,*,か/U1", "U0/U1"),
            comp("かきくa", 'C', "U0/U1/2", "U2/2"), atom("𠮷"), comp("𠮷かb", 'C', "U4/U0/3", "U4/U0/3")] };
        build_world(tag, n, &matrix, vec![sys, u1, u2, u3], false, (true, &[]), vec!["directed:userdicts".into()])
    } else if which == 3 {
        // numerals and katakana under BOTH path-rewrite plugins: a numeral compound WITH declared units heads a run that
        // JoinNumeric joins (二十 + 万, 10 + 1), a katakana compound with units is joined with an OOV neighbour by
        // JoinKatakanaOov; units of units (二十万 = B 二十/万, A 二/十/万).  The joined token is a new word without units:
        // unchanged in modes A/B, `split_into` reports that nothing was split
        let num = |s: &str| { let mut r = atom(s); r.pos = NUMERAL; r };
        let ncomp = |s: &str, a: &str, b: &str| { let mut r = comp(s, 'C', a, b); r.pos = NUMERAL; r };
        let rows = vec![
            num("二"), num("十"), num("万"),                                             // 0 1 2
            ncomp("二十", "0/1", "0/1"), ncomp("十万", "1/2", "*"), ncomp("二十万", "0/1/2", "3/2"), // 3 4 5
            atom("円"), num("1"), num("0"), ncomp("10", "7/8", "7/8"),                    // 6 7 8 9
            atom("ア"), atom("イ"), comp("アイ", 'C', "10/11", "10/11"),                   // 10 11 12
            atom("東京"), atom("都"), comp("東京都", 'C', "13/14", "*"),                   // 13 14 15
            comp("二十万円", 'C', "0/1/2/6", "5/6"),                                      // 16: a NOUN whose B unit 二十万 is a compound numeral
        ];
        let sys = DictSpec { rows, pos };
        build_world(tag, n, &matrix, vec![sys], false, (true, &['N', 'K']), vec!["directed:numerals+katakana".into()])
    } else {
        // D6: `東` with the A split `東京都/京`
        let rows = vec![atom("東京都"), atom("京"), comp("東", 'C', "0/1", "*"), atom("あ"), comp("あ京", 'C', "6/1", "*"), atom("都"), atom("a")];
        let sys = DictSpec { rows, pos };
        build_world(tag, n, &matrix, vec![sys], true, (true, &[]), vec!["directed:illformed".into()])
    }
}

fn world9(seed: u64, widx: usize) -> Result<W9, String> {
    let tag = format!("C09-w{}", widx);
    if widx < N_DIRECTED { return directed_world(widx, &tag); }
    let mut rng = Rng::for_case(seed ^ 0x0909_0909, widx);
    let n = rng.range(2, 4);
    let matrix = Matrix::random(&mut rng, n, n, false);
    let sys = gen_dict(&mut rng, n, None, 0);
    let nusers = *rng.pick(&[0, 1, 1, 2, 2, 3]);
    let mut dicts = vec![sys];
    for u in 0..nusers {
        let d = gen_dict(&mut rng, n, Some(&dicts[0]), u);
        dicts.push(d);
    }
    let mut ill = false;
    if widx % 8 == 5 {
        let k = rng.below(dicts.len());
        ill = break_dict(&mut rng, &mut dicts[k], k > 0);
    }
    let has_numerals = dicts[0].rows.iter().any(|r| r.surface == "二十");
    let mut pr: Vec<char> = vec![];
    if rng.chance(if has_numerals { 3 } else { 1 }, if has_numerals { 4 } else { 3 }) { pr.push(if rng.chance(1, 4) { 'n' } else { 'N' }); }
    let has_kata = dicts[0].rows.iter().any(|r| r.surface == "アイ" && r.split_a != "*");
    if rng.chance(if has_kata { 2 } else { 1 }, 3) { pr.push('K'); }
    if pr.len() == 2 && rng.chance(1, 3) { pr.reverse(); }
    let dflt = rng.chance(5, 6);
    let mut desc = vec![if ill { "random:illformed".to_string() } else { "random:wellformed".to_string() }];
    if has_numerals { desc.push("numeral-compounds-with-units".to_string()); }
    if has_kata { desc.push("katakana-compounds-with-units".to_string()); }
    build_world(&tag, n, &matrix, dicts, ill, (dflt, &pr), desc)
}

// ---------------------------------------------------------------------------------------------
// texts

fn denorm(rng: &mut Rng, s: &str) -> String {
    if s == "株式会社" && rng.chance(1, 2) { return "㍿".into(); }
    let mut out = String::new();
    for c in s.chars() {
        let k = rng.below(4);
        match c {
            'a' | 'b' if k == 0 => out.push(char::from_u32(c as u32 - 0x61 + 0xFF41).unwrap()),  // full-width lower
            'a' | 'b' if k == 1 => out.push(c.to_ascii_uppercase()),
            'a' | 'b' if k == 2 => out.push(char::from_u32(c as u32 - 0x61 + 0xFF21).unwrap()),  // full-width upper
            '0' | '1' if k == 0 => out.push(char::from_u32(c as u32 - 0x30 + 0xFF10).unwrap()),
            'ア' if k == 0 => out.push('ｱ'),
            'イ' if k == 0 => out.push('ｲ'),
            'é' if k == 0 => out.push_str("e\u{301}"),
            'é' if k == 1 => out.push('É'),
            'ω' if k == 0 => out.push('Ω'),
            'ー' if k == 0 => out.push('ｰ'),
            _ => out.push(c),
        }
    }
    out
}

fn gen_text9(rng: &mut Rng, w: &W9) -> String {
    let mut s = String::new();
    let n = rng.range(1, 4);
    for _ in 0..n {
        let d = &w.dicts[rng.below(w.dicts.len())];
        let comps: Vec<&Row> = d.rows.iter().filter(|r| r.split_a != "*" || r.split_b != "*").collect();
        // a compound numeral with declared units at the head (or inside) of a run of numerals
        let nums: Vec<&Row> = w.dicts[0].rows.iter().filter(|r| r.split_a != "*" && ["二十", "10", "二十万", "十万"].contains(&r.surface.as_str())).collect();
        if !nums.is_empty() && rng.chance(1, 4) {
            if rng.chance(1, 4) { s.push(*rng.pick(&['二', '1', '3', '百'])); }
            let k = rng.pick(&nums).surface.clone();
            s.push_str(&denorm(rng, &k));
            for _ in 0..rng.below(3) { s.push(*rng.pick(&['万', '二', '十', '1', '0', '１', '3', '千', ',', '.'])); }
            if rng.chance(1, 3) { s.push(*rng.pick(&['円', '、', 'ア'])); }
            continue;
        }
        let katas: Vec<&Row> = w.dicts[0].rows.iter().filter(|r| r.split_a != "*" && ["アイ", "イアイ"].contains(&r.surface.as_str())).collect();
        if !katas.is_empty() && rng.chance(1, 5) {
            for _ in 0..rng.below(3) { s.push(*rng.pick(&['ウ', 'カ', 'ｶ', 'ー', 'ン'])); }
            let k = rng.pick(&katas).surface.clone();
            s.push_str(&denorm(rng, &k));
            for _ in 0..rng.below(3) { s.push(*rng.pick(&['ウ', 'カ', 'ｳ', 'ア', 'ン'])); }
            if rng.chance(1, 3) { s.push(*rng.pick(&['円', '、', '二'])); }
            continue;
        }
        match rng.below(10) {
            0..=5 if !comps.is_empty() => { let k = rng.pick(&comps).surface.clone(); s.push_str(&denorm(rng, &k)); }
            6 | 7 => { let k = rng.pick(&d.rows).surface.clone(); s.push_str(&denorm(rng, &k)); }
            8 => s.push(*rng.pick(&['、', ' ', '。', 'ン', '3', 'x', '十'])),
            _ => s.push(*rng.pick(TEXT_CHARS)),
        }
        if rng.chance(1, 3) { s.push(*rng.pick(&['、', ' ', 'を'])); }
    }
    s
}

// ---------------------------------------------------------------------------------------------
// tokenizer configuration histories

#[derive(Clone, Copy, Debug)]
enum Op { New(Mode), Sub(u32), Md(Mode) }

fn ops_wire(ops: &[Op]) -> String {
    ops.iter().map(|o| match o { Op::New(m) => format!("n:{}", mode_char(*m)), Op::Sub(b) => format!("s:{}", b), Op::Md(m) => format!("m:{}", mode_char(*m)) }).collect::<Vec<_>>().join(",")
}

/// what a long-lived analyser went through before the case: after the first `at` configuration calls the
/// tokenizer analysed `warm` (each result collected into the SAME MorphemeList, the way `collect_results`
/// is used in a loop: the list and the tokenizer swap their input buffers and node vectors on every call,
/// so an analysis meets the buffers of the call before last), then the remaining configuration calls follow.
/// Nothing of this is sent to the model: the property does not depend on the history.
#[derive(Clone, Debug, Default)]
struct Hist { warm: Vec<String>, at: usize }

impl Hist {
    fn fresh() -> Hist { Hist { warm: vec![], at: 0 } }
    fn describe(&self) -> String {
        if self.warm.is_empty() { "new".to_string() } else { format!("recycled(after-op-{}:{})", self.at, self.warm.iter().map(|t| if t.len() > 40 { format!("<{}-bytes>", t.len()) } else { format!("{:?}", t) }).collect::<Vec<_>>().join("+")) }
    }
}

fn apply_one<'a>(tok: &mut StatefulTokenizer<&'a JapaneseDictionary>, o: &Op, rets: &mut Vec<String>) {
    match o {
        Op::New(_) => {}
        Op::Sub(b) => { let old = tok.set_subset(InfoSubset::from_bits_truncate(*b)); rets.push(old.bits().to_string()); }
        Op::Md(m) => { let old = tok.set_mode(*m); rets.push(mode_char(old).to_string()); }
    }
}

/// returns the tokenizer and the values returned by every call (old mode / old subset); the warm-up texts of
/// `hist` are analysed on the way and collected into `ml` (failures are part of the history)
fn apply_hist<'a>(dic: &'a JapaneseDictionary, ops: &[Op], hist: &Hist, ml: &mut MorphemeList<&'a JapaneseDictionary>) -> (StatefulTokenizer<&'a JapaneseDictionary>, Vec<String>) {
    let m0 = match ops.first() { Some(Op::New(m)) => *m, _ => Mode::C };
    let mut tok = StatefulTokenizer::new(dic, m0);
    let mut rets = vec![];
    let at = hist.at.max(1).min(ops.len());
    for o in &ops[1.min(ops.len())..at] { apply_one(&mut tok, o, &mut rets); }
    for wt in &hist.warm {
        tok.reset().push_str(wt);
        if tok.do_tokenize().is_ok() { let _ = ml.collect_results(&mut tok); }
    }
    for o in &ops[at..] { apply_one(&mut tok, o, &mut rets); }
    (tok, rets)
}

fn apply_ops<'a>(dic: &'a JapaneseDictionary, ops: &[Op]) -> (StatefulTokenizer<&'a JapaneseDictionary>, Vec<String>) {
    let mut ml = MorphemeList::empty(dic);
    apply_hist(dic, ops, &Hist::fresh(), &mut ml)
}

fn too_long_text() -> &'static str {
    static T: std::sync::OnceLock<String> = std::sync::OnceLock::new();
    T.get_or_init(|| "あ".repeat(16384))          // 49152 bytes > 49149: rejected by start_build (InputTooLong)
}

/// 1-4 earlier texts of other lengths: longer and shorter than `text`, empty, rejected, unrelated
fn gen_warm(rng: &mut Rng, w: &W9, text: &str, nops: usize) -> Hist {
    let n = rng.range(1, 4);
    let mut warm = vec![];
    for _ in 0..n {
        warm.push(match rng.below(8) {
            0 => String::new(),
            1 => too_long_text().to_string(),
            2 => text.chars().take(1).collect(),
            3 => { let mut t = text.to_string(); for _ in 0..rng.range(1, 3) { t.push_str(&gen_text9(rng, w)); } t.push_str(text); t }
            4 => { let k = text.chars().count(); text.chars().take(k.saturating_sub(1)).collect() }
            5 => { let mut t = gen_text9(rng, w); t.push_str(&gen_text9(rng, w)); t.push_str(&gen_text9(rng, w)); t }
            _ => gen_text9(rng, w),
        });
    }
    Hist { warm, at: rng.range(1, nops.max(1)) }
}

fn rand_subset(rng: &mut Rng) -> u32 {
    match rng.below(6) {
        0 => 1023,
        1 => 4,                                  // POS only
        2 => 1 | 4 | 8,                          // surface, pos, normalized form
        3 => rng.below(1024) as u32 & !(HWL | SPLIT_A | SPLIT_B),
        4 => rng.below(1024) as u32 | SPLIT_A | SPLIT_B,
        _ => rng.below(1024) as u32,
    }
}

fn rand_mode(rng: &mut Rng) -> Mode { mode_of(rng.below(3)) }

/// a history that ends in mode `m` (A or B)
fn direct_ops(rng: &mut Rng, m: Mode) -> Vec<Op> {
    let own = match m { Mode::A => SPLIT_A, Mode::B => SPLIT_B, Mode::C => 0 };
    match rng.below(14) {
        0..=3 => vec![Op::New(m)],
        4 => vec![Op::New(Mode::C), Op::Md(m)],
        5 => vec![Op::New(m), Op::Sub(rand_subset(rng))],
        6 => vec![Op::New(Mode::C), Op::Sub(rand_subset(rng)), Op::Md(m)],
        7 => vec![Op::New(rand_mode(rng)), Op::Md(rand_mode(rng)), Op::Sub(rand_subset(rng)), Op::Md(m)],
        8 => vec![Op::New(Mode::C), Op::Sub(4), Op::Md(m)],
        // single-flag subsets: only the split field of the mode (what set_subset leaves of an empty request)
        9 => vec![Op::New(m), Op::Sub(if rng.chance(1, 2) { own } else { 0 })],
        // the reviewer's sequence: subset chosen in mode C, mode switched afterwards (no HEAD_WORD_LENGTH bit)
        10 => vec![Op::New(Mode::C), Op::Sub(1), Op::Md(m)],
        11 => vec![Op::New(Mode::C), Op::Sub(rng.below(1024) as u32 & !(HWL | SPLIT_A | SPLIT_B)), Op::Md(m)],
        _ => vec![Op::New(rand_mode(rng)), Op::Sub(rand_subset(rng)), Op::Md(rand_mode(rng)), Op::Sub(rand_subset(rng)), Op::Md(m)],
    }
}

/// the history of the tokenizer that makes the mode-C list for the on-demand splits: every subset
fn c_ops(rng: &mut Rng) -> Vec<Op> {
    match rng.below(12) {
        0..=3 => vec![Op::New(Mode::C)],
        4 => vec![Op::New(Mode::A), Op::Md(Mode::C)],
        5 => vec![Op::New(Mode::C), Op::Sub(rand_subset(rng) | SPLIT_A | SPLIT_B)],
        6 => vec![Op::New(Mode::C), Op::Sub(SPLIT_A)],
        7 => vec![Op::New(Mode::C), Op::Sub(SPLIT_B)],
        8 => vec![Op::New(Mode::C), Op::Sub(SPLIT_A | SPLIT_B)],
        9 => vec![Op::New(if rng.chance(1, 2) { Mode::A } else { Mode::B }), Op::Sub(rand_subset(rng)), Op::Md(Mode::C)],
        10 => vec![Op::New(Mode::C), Op::Sub(rng.below(1024) as u32)],
        _ => vec![Op::New(Mode::C), Op::Sub(rand_subset(rng))],
    }
}

// ---------------------------------------------------------------------------------------------
// observation

#[derive(Clone, Debug, PartialEq)]
struct T9 {
    cb: usize, ce: usize, bb: usize, be: usize,
    wid: u32,
    ob: usize, oe: usize,
    surface: Option<String>,
    /// byte range of `surface()` inside the original text (pointer arithmetic on the returned slice)
    srange: Option<(usize, usize)>,
    norm_slice: Option<String>,
    pos: Vec<String>,
    reading: String,
    normalized: String,
    dict_form: String,
    headword: String,
    hwl: usize,
    /// `a_unit_split()` / `b_unit_split()` of the loaded word info (raw ids)
    a: Vec<u32>,
    b: Vec<u32>,
}

impl T9 {
    /// ranges and word id (what the oracle compares between routes whose subsets differ)
    fn wire(&self) -> String {
        let sf = match self.srange { Some((a, b)) => format!("{}:{}", a, b), None => "P".to_string() };
        format!("{}:{}:{}:{}:{}:{}:{}:{}", self.cb, self.ce, self.bb, self.be, self.wid, self.ob, self.oe, sf)
    }
    /// what the model must reproduce: ranges, word id AND the loaded word info as far as splitting looks at it
    fn wire_full(&self) -> String {
        format!("{}:{}:{}:{}", self.wire(), self.hwl, join(self.a.iter(), "_"), join(self.b.iter(), "_"))
    }
    fn same_token(&self, o: &T9) -> bool { self == o }
}

fn extract(ml: &MorphemeList<&JapaneseDictionary>, modified: &str) -> Vec<T9> {
    let base = ml.surface().as_ptr() as usize;
    ml.iter().map(|m| {
        let (cb, ce, bb, be) = m.verif_node_range();
        let sf = catch(|| { let s = m.surface(); ((s.as_ptr() as usize).wrapping_sub(base), s.len(), s.to_string()) }).ok();
        let srange = sf.as_ref().map(|x| (x.0, x.0 + x.1));
        let surface = sf.map(|x| x.2);
        let norm_slice = if bb <= be && be <= modified.len() && modified.is_char_boundary(bb) && modified.is_char_boundary(be) { Some(modified[bb..be].to_string()) } else { None };
        T9 {
            cb, ce, bb, be, wid: m.word_id().as_raw(), ob: m.begin(), oe: m.end(), surface, srange, norm_slice,
            pos: m.part_of_speech().to_vec(), reading: m.reading_form().to_string(), normalized: m.normalized_form().to_string(),
            dict_form: m.dictionary_form().to_string(), headword: m.get_word_info().surface().to_string(), hwl: m.get_word_info().head_word_length(),
            a: m.get_word_info().a_unit_split().iter().map(|x| x.as_raw()).collect(), b: m.get_word_info().b_unit_split().iter().map(|x| x.as_raw()).collect(),
        }
    }).collect()
}

fn wire_list(ts: &[T9]) -> String { ts.iter().map(|t| t.wire()).collect::<Vec<_>>().join(",") }
fn wire_list_full(ts: &[T9]) -> String { ts.iter().map(|t| t.wire_full()).collect::<Vec<_>>().join(",") }

/// the nodes of `prev` (the path before a plugin) that node `t` of the path after it covers exactly
fn cover<'a>(prev: &'a [T9], t: &T9) -> Option<&'a [T9]> {
    let i = prev.iter().position(|p| p.cb == t.cb)?;
    let mut j = i;
    while j < prev.len() && prev[j].ce < t.ce { j += 1; }
    if j < prev.len() && prev[j].ce == t.ce { Some(&prev[i..=j]) } else { None }
}

fn raw_wire(t: &T9) -> String { format!("{}:{}:{}:{}", t.cb, t.ce, t.wid, if W9::is_lex(t.wid) { 0 } else { 1 }) }

/// one final path node with the parts it was joined from, read off the paths between the plugins
struct Grp<'a> { node: &'a T9, joined_by: Vec<char>, parts: Vec<&'a T9> }

/// grouping of the final path `fin` over the paths `st[0]` (no plugin), `st[1]` (first plugin only); `kinds` = the plugins.
/// Returns the wire form (`cb:ce:wid:syn` | `N=p+p` | `K@g~g`) and the groups; None when the paths are not nested
fn group_wire<'a>(st: &'a [Vec<T9>], kinds: &[char], fin: &'a [T9]) -> Option<(String, Vec<Grp<'a>>)> {
    let g1 = |t: &'a T9, kind: char| -> Option<(String, bool, Vec<&'a T9>)> {
        let ms = cover(&st[0], t)?;
        let joined = ms.len() > 1 || ms[0].wid != t.wid;
        let w = if joined { format!("{}={}", kind, ms.iter().map(raw_wire).collect::<Vec<_>>().join("+")) } else { raw_wire(&ms[0]) };
        Some((w, joined, ms.iter().collect()))
    };
    let mut out = vec![];
    let mut grps = vec![];
    for t in fin {
        match st.len() {
            0 => { out.push(raw_wire(t)); grps.push(Grp { node: t, joined_by: vec![], parts: vec![t] }); }
            1 => { let (w, j, ps) = g1(t, kinds[0])?; out.push(w); grps.push(Grp { node: t, joined_by: if j { vec![kinds[0]] } else { vec![] }, parts: ps }); }
            _ => {
                let ms = cover(&st[1], t)?;
                let joined = ms.len() > 1 || ms[0].wid != t.wid;
                let mut ws = vec![]; let mut by = vec![]; let mut parts = vec![];
                for m in ms { let (w, j, ps) = g1(m, kinds[0])?; ws.push(w); if j && !by.contains(&kinds[0]) { by.push(kinds[0]); } parts.extend(ps); }
                if joined { by.push(kinds[1]); out.push(format!("{}@{}", kinds[1], ws.join("~"))); } else { out.push(ws.join("~")); }
                grps.push(Grp { node: t, joined_by: by, parts });
            }
        }
    }
    Some((out.join(","), grps))
}

struct Obs {
    modified: String,
    original: String,
    b2c: Vec<usize>,
    c2b: Vec<usize>,
    m2o: Vec<usize>,
    c: Vec<T9>,
    c_subset: u32,
    /// `MorphemeList::subset()` after `collect_results`
    list_subset: u32,
}

/// tokenise with the given history; Ok(Err(kind)) = the tokenizer returned an error
fn run_direct(dic: &JapaneseDictionary, ops: &[Op], hist: &Hist, text: &str) -> Result<Result<(Vec<T9>, u32, Mode, Vec<String>), String>, String> {
    catch(|| {
        let mut ml = MorphemeList::empty(dic);
        let (mut tok, rets) = apply_hist(dic, ops, hist, &mut ml);
        tok.reset().push_str(text);
        if let Err(e) = tok.do_tokenize() { return Err(err_class(&e)); }
        let st = tok.verif_state();
        let modified = tok.verif_input().verif_tables().modified;
        if let Err(e) = ml.collect_results(&mut tok) { return Err(err_class(&e)); }
        Ok((extract(&ml, &modified), st.3.bits(), st.4, rets))
    })
}

// ---------------------------------------------------------------------------------------------
// oracle helpers (CSV rows only)

struct Unit<'a> { wid: u32, row: &'a Row, pos: &'a [String; 6] }

impl W9 {
    fn row_of(&self, wid: u32) -> Option<(&Row, &[String; 6])> {
        let d = (wid >> 28) as usize;
        let w = (wid & MAX_WORD) as usize;
        let ds = self.dicts.get(d)?;
        let r = ds.rows.get(w)?;
        Some((r, &ds.pos[r.pos]))
    }
    fn is_lex(wid: u32) -> bool { (wid >> 28) != 15 && (wid & MAX_WORD) != MAX_WORD }
    /// declared units of word `wid` for `mode`, with the ids the reader must hand out
    fn declared(&self, wid: u32, mode: Mode) -> Vec<Unit<'_>> {
        if !Self::is_lex(wid) { return vec![]; }
        let d = (wid >> 28) as usize;
        let w = (wid & MAX_WORD) as usize;
        let st = match self.stored.get(d).and_then(|x| x.get(w)) { Some(s) => s, None => return vec![] };
        let ids = match mode { Mode::A => &st.0, Mode::B => &st.1, Mode::C => return vec![] };
        ids.iter().filter_map(|&raw| {
            let id = if (raw >> 28) > 0 { ((d as u32) << 28) | (raw & MAX_WORD) } else { raw };
            self.row_of(id).map(|(row, pos)| Unit { wid: id, row, pos })
        }).collect()
    }
    fn concat_ok(&self, wid: u32, mode: Mode) -> bool {
        let us = self.declared(wid, mode);
        match self.row_of(wid) { Some((r, _)) => us.is_empty() || us.iter().map(|u| u.row.surface.as_str()).collect::<String>() == r.surface, None => true }
    }
}

fn expected_fields(u: &Unit, w: &W9) -> (String, String, String, String) {
    let r = u.row;
    let dform = if r.dic_form == "*" { r.headword.clone() } else {
        let d = (u.wid >> 28) as usize;
        r.dic_form.parse::<usize>().ok().and_then(|i| w.dicts[d].rows.get(i)).map(|x| x.headword.clone()).unwrap_or_default()
    };
    (r.headword.clone(), r.reading.clone(), r.norm.clone(), dform)
}

/// compares the sub-tokens with the declared units; returns (kind, description) of the first deviation
fn check_units(w: &W9, parent: &T9, subs: &[T9], units: &[Unit], full_fields: bool, wellformed: bool) -> Option<(String, String)> {
    if !wellformed {
        // D6 stream: the units do not concatenate to the key; only a monotone chain inside the parent is demanded
        if subs.len() != units.len() { return Some(("count".into(), format!("{} sub-tokens for {} declared units", subs.len(), units.len()))); }
        let (mut cb, mut bb, mut ob) = (parent.cb, parent.bb, parent.ob);
        for (i, s) in subs.iter().enumerate() {
            if s.wid != units[i].wid { return Some(("id".into(), format!("sub-token {} has word id {:#x}, declared unit {:#x}", i, s.wid, units[i].wid))); }
            if s.cb != cb || s.bb != bb || s.ob != ob || s.ce < s.cb || s.be < s.bb || s.oe < s.ob || s.ce > parent.ce || s.be > parent.be {
                return Some(("range".into(), format!("sub-token {} has range chars {}..{} bytes {}..{} orig {}..{}; previous end chars {} bytes {} orig {}; parent chars {}..{} bytes {}..{}", i, s.cb, s.ce, s.bb, s.be, s.ob, s.oe, cb, bb, ob, parent.cb, parent.ce, parent.bb, parent.be)));
            }
            if s.norm_slice.is_none() || s.surface.is_none() { return Some(("surface".into(), format!("sub-token {} bytes {}..{} is not on character boundaries of the normalised text (surface() {})", i, s.bb, s.be, if s.surface.is_none() { "panics" } else { "ok" }))); }
            cb = s.ce; bb = s.be; ob = s.oe;
        }
        if cb != parent.ce || bb != parent.be || ob != parent.oe { return Some(("range".into(), "the last sub-token does not end at the parent's end".into())); }
        return None;
    }
    if subs.len() != units.len() {
        return Some(("count".into(), format!("{} sub-tokens for {} declared units", subs.len(), units.len())));
    }
    let mut cb = parent.cb;
    let mut bb = parent.bb;
    let mut ob = parent.ob;
    for (i, (s, u)) in subs.iter().zip(units.iter()).enumerate() {
        if s.wid != u.wid { return Some(("id".into(), format!("sub-token {} has word id {:#x}, declared unit {:#x}", i, s.wid, u.wid))); }
        if s.cb != cb || s.bb != bb { return Some(("range".into(), format!("sub-token {} begins at char {} byte {} but the previous one (or the parent) ended/began at char {} byte {}", i, s.cb, s.bb, cb, bb))); }
        if s.ce < s.cb || s.be < s.bb { return Some(("range".into(), format!("sub-token {} has end before begin ({}..{})", i, s.cb, s.ce))); }
        if s.norm_slice.as_deref() != Some(u.row.surface.as_str()) {
            return Some(("key".into(), format!("sub-token {} covers {:?} of the normalised text, the declared unit's key is {:?}", i, s.norm_slice, u.row.surface)));
        }
        if s.ob < ob || s.oe < s.ob { return Some(("partition".into(), format!("sub-token {} original range {}..{} goes backwards (previous end {})", i, s.ob, s.oe, ob))); }
        if i == 0 && s.ob != parent.ob { return Some(("partition".into(), format!("first sub-token begins at {} in the original text, the parent at {}", s.ob, parent.ob))); }
        if i > 0 && s.ob != ob { return Some(("partition".into(), format!("sub-token {} begins at {} in the original text, the previous one ended at {}", i, s.ob, ob))); }
        if s.surface.is_none() { return Some(("surface".into(), format!("surface() of sub-token {} panics", i))); }
        if full_fields {
            let (hw, rd, nf, df) = expected_fields(u, w);
            if s.headword != hw || s.reading != rd || s.normalized != nf || s.dict_form != df || s.pos != u.pos.to_vec() || s.hwl != u.row.surface.len() {
                return Some(("fields".into(), format!("sub-token {} fields (headword {:?}, reading {:?}, norm {:?}, dform {:?}, pos {:?}, keylen {}) differ from the declared row ({:?}, {:?}, {:?}, {:?}, {:?}, {})",
                    i, s.headword, s.reading, s.normalized, s.dict_form, s.pos, s.hwl, hw, rd, nf, df, u.pos, u.row.surface.len())));
            }
        }
        cb = s.ce; bb = s.be; ob = s.oe;
    }
    if cb != parent.ce || bb != parent.be || ob != parent.oe {
        return Some(("partition".into(), format!("the last sub-token ends at char {} byte {} orig {}, the parent at char {} byte {} orig {}", cb, bb, ob, parent.ce, parent.be, parent.oe)));
    }
    None
}

// ---------------------------------------------------------------------------------------------

/// which instance of the model mirrors the tree: does `NodeSplitIterator::next` clamp the unit end to
/// the parent's end (candidate repair of D6)?  Textual probe of the linked source, as C07 does.
fn impl_d6_fixed() -> bool {
    let p = format!("{}/src/analysis/node.rs", crate::c07::repo_sudachi_dir());
    match std::fs::read_to_string(p) {
        Ok(s) => s.contains(".min(self.byte_end as usize)"),
        Err(_) => false,
    }
}

/// does `MorphemeList::lookup` record the subset of the call in the list (proposed repair `fix_lookup_subset.patch`)?
/// Textual probe of the linked source.
fn impl_lookup_fixed() -> bool {
    let p = format!("{}/src/analysis/mlist.rs", crate::c07::repo_sudachi_dir());
    match std::fs::read_to_string(p) {
        Ok(s) => s.contains("part.subset = subset;"),
        Err(_) => false,
    }
}

pub fn run(run: &mut Run) {
    let d6fix = impl_d6_fixed();
    let lkfix = impl_lookup_fixed();
    run.extra.insert("model_variant_d6fix".into(), serde_json::json!(d6fix));
    run.extra.insert("model_variant_lookup_fix".into(), serde_json::json!(lkfix));
    run.rule = "worlds = system dictionary + 0-3 user dictionaries with WELL-FORMED A/B split declarations generated bottom-up (atoms of 1-4 byte \
characters, compounds whose key is the concatenation of their units; references by id, U-id and inline; system->system, user->system, user->user; homograph \
units, non-indexed units, headwords of other length than the key, nested compounds, one-unit and self declarations) x texts made of compound keys written in \
de-normalised form (full-width/upper-case letters, half-width kana, combining accents, U+337F) x tokenizer histories (new/set_subset/set_mode sequences); \
one world in 8 and directed world 1 carry ILL-FORMED declarations (judged by the first and third sentence of the property only); directed world 2 = three user dictionaries with U-references inside the 2nd/3rd and single-flag subsets; HALF of the split cases run on recycled objects (tokenizer + one MorphemeList after 1-4 other texts: longer, shorter, empty, rejected; configuration calls partly after them; used output lists), C lists are made with every subset; stream `lookup` (odd worlds): MorphemeList::lookup on a new or used list followed by split_into. non-trivial = the direct tokenisation succeeded and at least one C token was \
replaced by >= 2 units; distinct by line".into();
    let n = run.opts.count;
    let mut cur: Option<(usize, Result<W9, String>)> = None;
    for idx in 0..n {
        if !run.wants(idx) { continue; }
        let widx = idx / CASES_PER_WORLD;
        if cur.as_ref().map(|w| w.0) != Some(widx) {
            cur = None;
            cur = Some((widx, world9(run.opts.seed, widx)));
            if let Some((_, Ok(w))) = &cur { for d in &w.desc { run.bump(&format!("world:{}", d)); } }
        }
        let w = match &cur.as_ref().unwrap().1 {
            Ok(w) => w,
            Err(e) => {
                if idx % CASES_PER_WORLD == 0 { run.bump(&format!("world-error:{}", e.chars().take(70).collect::<String>())); }
                continue;
            }
        };
        let mut rng = Rng::for_case(run.opts.seed, idx);
        let j = idx % CASES_PER_WORLD;
        if j == 0 { winfo_case(run, idx, w, &mut rng); continue; }
        if j == 1 {
            if widx % 2 == 1 || widx == 2 { lookup_case(run, idx, w, &mut rng, widx, d6fix, lkfix); } else { subset_case(run, idx, w, &mut rng); }
            continue;
        }
        split_case(run, idx, w, &mut rng, widx, j, d6fix);
    }
}

fn winfo_case(run: &mut Run, idx: usize, w: &W9, rng: &mut Rng) {
    let subset = match rng.below(4) { 0 => 1023, 1 => SPLIT_A | SPLIT_B | HWL, 2 => SPLIT_A, _ => rand_subset(rng) };
    let mut ans = vec![];
    let lex = w.dic.lexicon();
    for (d, ds) in w.dicts.iter().enumerate() {
        for i in 0..ds.rows.len() {
            let id = WordId::new(d as u8, i as u32);
            let r = catch(|| lex.get_word_info_subset(id, InfoSubset::from_bits_truncate(subset)));
            match r {
                Err(_) => ans.push("PANIC".to_string()),
                Ok(Err(_)) => ans.push("err".to_string()),
                Ok(Ok(wi)) => {
                    let a: Vec<u32> = wi.a_unit_split().iter().map(|x| x.as_raw()).collect();
                    let b: Vec<u32> = wi.b_unit_split().iter().map(|x| x.as_raw()).collect();
                    ans.push(format!("{}:{}:{}", wi.head_word_length(), join(a.iter(), "/"), join(b.iter(), "/")));
                    // oracle: re-stamping (user->user references get the owner's id, system references stay)
                    let st = &w.stored[d][i];
                    let exp = |ids: &Vec<u32>, on: bool| -> Vec<u32> { if !on { vec![] } else { ids.iter().map(|&raw| if (raw >> 28) > 0 { ((d as u32) << 28) | (raw & MAX_WORD) } else { raw }).collect() } };
                    if a != exp(&st.0, subset & SPLIT_A != 0) || b != exp(&st.1, subset & SPLIT_B != 0) {
                        run.fail_with_line(idx, &format!("winfo dict={} word={} subset={}", d, i, subset), "restamp", &format!("dictionary {} word {}: A units {:?} B units {:?}, declared (stored) {:?} / {:?}", d, i, a, b, st.0, st.1));
                    }
                    if subset & HWL != 0 && wi.head_word_length() != ds.rows[i].surface.len() {
                        run.fail_with_line(idx, &format!("winfo dict={} word={} subset={}", d, i, subset), "keylen", &format!("dictionary {} word {}: head_word_length {} but the key {:?} has {} bytes", d, i, wi.head_word_length(), ds.rows[i].surface, ds.rows[i].surface.len()));
                    }
                    for &x in a.iter().chain(b.iter()) {
                        run.bump(match (d > 0, (x >> 28) > 0) { (false, _) => "ref:system->system", (true, false) => "ref:user->system", (true, true) => "ref:user->user" });
                    }
                }
            }
        }
    }
    run.case(idx, "winfo", &format!("subset={} lex={}", subset, w.lex_wire), &format!("ok {}", ans.join(",")), w.dicts.len() > 1);
}

fn subset_case(run: &mut Run, idx: usize, w: &W9, rng: &mut Rng) {
    let mut ops = vec![Op::New(rand_mode(rng))];
    for _ in 0..rng.range(1, 6) {
        ops.push(if rng.chance(1, 2) { Op::Md(rand_mode(rng)) } else { Op::Sub(rand_subset(rng)) });
    }
    let (tok, rets) = apply_ops(&w.dic, &ops);
    let st = tok.verif_state();
    let bits = st.3.bits();
    run.case(idx, "subset", &format!("ops={}", ops_wire(&ops)), &format!("ok st={}:{} rets={}", bits, mode_char(st.4), rets.join(",")), true);
    // oracle: a tokenizer in mode A/B must load the split field of its mode and the key length
    let need = match st.4 { Mode::A => SPLIT_A, Mode::B => SPLIT_B, Mode::C => 0 };
    if bits & need != need {
        run.fail(idx, "subset:split-field-missing", &format!("after {} the subset {} lacks the split field of mode {}", ops_wire(&ops), bits, mode_char(st.4)));
    }
    if need != 0 && bits & HWL == 0 {
        // not a failure: the reader writes head_word_length whenever it has to walk past it (C09.split_loads_key_length)
        run.bump("subset:split-field-without-HEAD_WORD_LENGTH-bit");
    }
}

/// `MorphemeList::lookup(query, subset)` on a list that may have been used before (its subset is then the one of the
/// tokenizer whose results it collected), followed by `split_into` of every morpheme found: the units must be the
/// declared ones, placed by their keys, whatever the list went through before.
fn lookup_case(run: &mut Run, idx: usize, w: &W9, rng: &mut Rng, widx: usize, d6fix: bool, lkfix: bool) {
    let dic = &w.dic;
    let mode = if rng.chance(1, 2) { Mode::A } else { Mode::B };
    let need = match mode { Mode::A => SPLIT_A, Mode::B => SPLIT_B, Mode::C => 0 };
    let (key, stale, sl): (String, Option<u32>, u32) = if widx == 2 {
        ("あーは".to_string(), Some(1), 1023)                 // list used by a tokenizer with fields = {SURFACE} before
    } else if widx == 1 {
        ("東".to_string(), Some(0), 1023)
    } else {
        let d = &w.dicts[rng.below(w.dicts.len())];
        let comps: Vec<&Row> = d.rows.iter().filter(|r| r.split_a != "*" || r.split_b != "*").collect();
        let key = if !comps.is_empty() && rng.chance(5, 6) { rng.pick(&comps).surface.clone() } else { rng.pick(&d.rows).surface.clone() };
        let stale = match rng.below(6) { 0 => None, 1 => Some(0), 2 => Some(1), 3 => Some(4), 4 => Some(1023), _ => Some(rand_subset(rng)) };
        let sl = match rng.below(6) { 0 | 1 => 1023, 2 => SPLIT_A | SPLIT_B | HWL, 3 => rand_subset(rng) | need, 4 => rand_subset(rng) & !need, _ => rand_subset(rng) };
        (key, stale, sl)
    };
    let warm_text = gen_text9(rng, w);
    let res = catch(|| -> Result<(u32, u32, Vec<T9>, Vec<Result<(bool, Vec<T9>), String>>), String> {
        let mut ml = MorphemeList::empty(dic);
        if let Some(b) = stale {
            let mut tok = StatefulTokenizer::new(dic, Mode::C);
            tok.set_subset(InfoSubset::from_bits_truncate(b));
            tok.reset().push_str(&warm_text);
            if tok.do_tokenize().is_ok() { let _ = ml.collect_results(&mut tok); }
        }
        let before = ml.subset().bits();
        ml.clear();
        if let Err(e) = ml.lookup(&key, InfoSubset::from_bits_truncate(sl)) { return Err(err_class(&e)); }
        let after = ml.subset().bits();
        let found = extract(&ml, &key);
        let mut od = vec![];
        let mut out = MorphemeList::empty(dic);
        for i in 0..ml.len() {
            out.clear();
            let r = catch(|| ml.get(i).split_into(mode, &mut out).map(|flag| (flag, extract(&out, &key))));
            od.push(match r { Err(p) => Err(p), Ok(Err(e)) => Err(format!("err {}", err_class(&e))), Ok(Ok(x)) => Ok(x) });
        }
        Ok((before, after, found, od))
    });
    let (before, after, found, od) = match res {
        Err(p) => { run.fail_with_line(idx, &format!("lookup key={:?}", key), "lookup:panic", &format!("MorphemeList::lookup({:?}) panics: {}", key, p)); return; }
        Ok(Err(e)) => { run.bump(&format!("lookup:err:{}", e)); return; }
        Ok(Ok(x)) => x,
    };
    run.bump(if stale.is_some() { "lookup:list-used-before" } else { "lookup:new-list" });
    // tables of the query as `lookup` builds them (no input-text plugins run: modified = original = query)
    let mut b2c = vec![]; let mut c2b = vec![];
    for (ci, (bi, ch)) in key.char_indices().enumerate() { c2b.push(bi); for _ in 0..ch.len_utf8() { b2c.push(ci); } }
    let nch = key.chars().count();
    b2c.push(nch); c2b.push(key.len());
    let m2o: Vec<usize> = (0..=key.len()).collect();
    let payload = format!("{}{}ls={} sl={} odm={} lex={} b2c={} c2b={} m2o={} nodes={} ce={} be={}", if d6fix { "d6fix=1 " } else { "" }, if lkfix { "lkfix=1 " } else { "" },
        before, sl, mode_char(mode), w.lex_wire, join(b2c.iter(), ","), join(c2b.iter(), ","), join(m2o.iter(), ","), join(found.iter().map(|t| t.wid), ","), nch, key.len());
    let odpart = od.iter().map(|r| match r { Err(p) if p.starts_with("err ") => "E".to_string(), Err(_) => "P".to_string(), Ok((f, ts)) => format!("{}{}", if *f { "T" } else { "F" }, wire_list_full(ts)) }).collect::<Vec<_>>().join(";");
    let mut any = false;
    // oracle: the morphemes found carry what the call asked for; their split is the declared one
    let desc = format!("lookup({:?}, subset {}) on a list whose subset was {} ({}), split_into mode {} | world={}", key, sl, before, match stale { Some(b) => format!("it collected the results of a mode-C tokenizer after set_subset({})", b), None => "new list".to_string() }, mode_char(mode), w.desc.join(" "));
    let tagk = |k: &str| -> String { if before != sl && !lkfix { format!("lookup-split:stale-subset:{}", k) } else { format!("lookup-split:{}", k) } };
    let mut fails: Vec<(String, String)> = vec![];
    for (i, t) in found.iter().enumerate() {
        if t.cb != 0 || t.ce != nch || t.bb != 0 || t.be != key.len() { fails.push(("lookup:range".into(), format!("morpheme {} found for {:?} has range chars {}..{} bytes {}..{}", i, key, t.cb, t.ce, t.bb, t.be))); continue; }
        let units = if sl & need != 0 { w.declared(t.wid, mode) } else { vec![] };
        let wf = w.concat_ok(t.wid, mode);
        match &od[i] {
            Err(p) => fails.push((tagk("panic"), format!("split_into of morpheme {} (word {:#x}) fails: {}", i, t.wid, p))),
            Ok((flag, subs)) => {
                if units.is_empty() {
                    if *flag || !subs.is_empty() { fails.push(("lookup-split:none".to_string(), format!("morpheme {} (word {:#x}) has no units loaded but split_into returned {} with {} tokens", i, t.wid, flag, subs.len()))); }
                } else if units.len() == 1 {
                    run.bump("lookup:one-unit");
                } else {
                    any = true;
                    run.bump(if wf { "lookup:split-wellformed" } else { "lookup:split-illformed" });
                    if !*flag { fails.push((tagk("flag"), format!("morpheme {} (word {:#x}) declares {} units, split_into returned false", i, t.wid, units.len()))); }
                    else if wf {
                        if let Some((kind, what)) = check_units(w, t, subs, &units, sl == 1023, true) {
                            fails.push((tagk(&format!("units:{}", kind)), format!("morpheme {} {:?} (word {:#x}): {}", i, t.norm_slice, t.wid, what)));
                        }
                    }
                }
            }
        }
    }
    run.case(idx, "lookup", &payload, &format!("ok ls={} od={}", after, odpart), any);
    if let Some((k, what)) = fails.into_iter().next() {
        run.fail(idx, &k, &format!("{} | {}", what, desc));
    }
}

fn split_case(run: &mut Run, idx: usize, w: &W9, rng: &mut Rng, widx: usize, j: usize, d6fix: bool) {
    let dic = &w.dic;
    let mut mode = if rng.chance(1, 2) { Mode::A } else { Mode::B };
    let (text, opsd, opsc) = if widx == 0 {
        let texts = ["東京都", "㍿", "ＡＢ", "東京都㍿", "ae\u{301}𠮷", "東京い、い都い", "あー都あー", "ｱｱ", "都", "東京都株式会社", "Ａé𠮷。ab", "あｰ", "東京都㍿い都い"];
        // + the words with 64 and 100 declared A units (unit lists at the u8 boundary of 4 x count): a reader that SKIPS the A
        // list - mode B with a subset that lacks SPLIT_A - has to step over 256 / 400 bytes
        let big = ["ん".repeat(64), "ん".repeat(100), format!("都{}", "ん".repeat(64))];
        let nt = texts.len() + big.len();
        let k = (j - 2) % nt;
        let t = if k < texts.len() { texts[k].to_string() } else { big[k - texts.len()].clone() };
        if j >= 2 + nt { mode = if (j / 3) % 2 == 0 { Mode::A } else { Mode::B }; }
        // the three big words are analysed in mode B through a subset that lacks SPLIT_A (the A list is SKIPPED by the reader)
        if k >= texts.len() { mode = Mode::B; }
        let od = if k >= texts.len() { match k - texts.len() { 0 => vec![Op::New(Mode::B), Op::Sub(1)], 1 => vec![Op::New(Mode::C), Op::Sub(1), Op::Md(Mode::B)], _ => vec![Op::New(Mode::B), Op::Sub(SPLIT_B)] } }
            else if j < 2 + nt { vec![Op::New(mode)] } else { match j % 3 { 0 => vec![Op::New(Mode::C), Op::Sub(4), Op::Md(mode)], 1 => vec![Op::New(Mode::C), Op::Md(mode)], _ => vec![Op::New(mode), Op::Sub(1)] } };
        (t, od, vec![Op::New(Mode::C)])
    } else if widx == 1 {
        let texts = ["東", "東あ", "東京都", "あ京", "東あああ", "aあ京東"];
        (texts[(j - 2) % texts.len()].to_string(), vec![Op::New(mode)], vec![Op::New(Mode::C)])
    } else if widx == 2 {
        // 2nd/3rd user dictionary, U-references, single-flag subsets on both routes
        let texts = ["あー", "あーは", "あ都", "かきく", "かきくa", "いろは", "あーはかきくaいろは", "あｰは", "𠮷かＢ"];
        let k = j - 2;
        mode = if k % 2 == 0 { Mode::A } else { Mode::B };
        let own = if k % 2 == 0 { SPLIT_A } else { SPLIT_B };
        let od = match (k / 2) % 6 {
            0 => vec![Op::New(mode), Op::Sub(own)],
            1 => vec![Op::New(Mode::C), Op::Sub(1), Op::Md(mode)],
            2 => vec![Op::New(mode), Op::Sub(0)],
            3 => vec![Op::New(Mode::C), Op::Sub(4), Op::Md(mode)],
            4 => vec![Op::New(mode)],
            _ => vec![Op::New(mode), Op::Sub(SPLIT_A | SPLIT_B)],
        };
        let oc = match k % 6 {
            0 | 1 => vec![Op::New(Mode::C), Op::Sub(own)],
            2 => vec![Op::New(Mode::C), Op::Sub(SPLIT_A | SPLIT_B)],
            3 => vec![Op::New(mode), Op::Sub(0), Op::Md(Mode::C)],
            4 => vec![Op::New(Mode::C)],
            _ => vec![Op::New(Mode::C), Op::Sub(4)],
        };
        (texts[k % texts.len()].to_string(), od, oc)
    } else if widx == 3 {
        // numeral compounds with units heading joined runs, katakana compound joined with an OOV neighbour, both plugins
        let texts = ["二十万円", "二十二", "10１", "アイウ", "東京都二十", "二十万二十アイウ", "十万", "二十", "1０円", "ウアイ", "二十、十万", "二十万", "10,000円", "二十アイ東京都"];
        let k = j - 2;
        mode = if k % 2 == 0 { Mode::A } else { Mode::B };
        let od = match (k / 2) % 4 {
            0 => vec![Op::New(mode)],
            1 => vec![Op::New(Mode::C), Op::Md(mode)],
            2 => vec![Op::New(Mode::C), Op::Sub(4), Op::Md(mode)],          // no normalised form loaded: JoinNumeric sees ""
            _ => vec![Op::New(mode), Op::Sub(1 | 8)],
        };
        (texts[k % texts.len()].to_string(), od, vec![Op::New(Mode::C)])
    } else {
        (gen_text9(rng, w), direct_ops(rng, mode), c_ops(rng))
    };
    run.bump(&format!("mode:{}", mode_char(mode)));
    // about half of the cases run on RECYCLED objects: tokenizer + result list that analysed 1-4 other texts before
    let recycled = if widx < N_DIRECTED { j % 2 == 1 } else { rng.chance(1, 2) };
    let (hd, hc, ho) = if recycled {
        (gen_warm(rng, w, &text, opsd.len()), gen_warm(rng, w, &text, opsc.len()), gen_warm(rng, w, &text, 1))
    } else { (Hist::fresh(), Hist::fresh(), Hist::fresh()) };
    run.bump(if recycled { "objects:recycled" } else { "objects:new" });
    if recycled {
        for h in [&hd, &hc] {
            for t in &h.warm {
                run.bump(if t.is_empty() { "history:empty-text" } else if t.len() > 49149 { "history:rejected-text" } else if t.len() > text.len() { "history:longer-text" } else if t.len() < text.len() { "history:shorter-text" } else { "history:same-length-text" });
            }
            if h.at < opsd.len().max(opsc.len()) && h.at >= 1 { run.bump("history:configuration-calls-after-the-earlier-texts"); }
        }
    }

    // mode C list (kept alive for the on-demand splits)
    let cres = catch(|| -> Result<(MorphemeList<&JapaneseDictionary>, Obs), String> {
        let mut ml = MorphemeList::empty(dic);
        let (mut tok, _) = apply_hist(dic, &opsc, &hc, &mut ml);
        tok.reset().push_str(&text);
        if let Err(e) = tok.do_tokenize() { return Err(err_class(&e)); }
        let tb = tok.verif_input().verif_tables();
        let sub = tok.verif_state().3.bits();
        if let Err(e) = ml.collect_results(&mut tok) { return Err(err_class(&e)); }
        let c = extract(&ml, &tb.modified);
        let ls = ml.subset().bits();
        Ok((ml, Obs { modified: tb.modified, original: tb.original, b2c: tb.mod_b2c, c2b: tb.mod_c2b, m2o: tb.m2o, c, c_subset: sub, list_subset: ls }))
    });
    let (mlc, obs) = match cres {
        Err(p) => { run.bump("c-mode:panic"); run.fail_with_line(idx, &format!("text={:?}", text), "panic:mode-C", &format!("mode C tokenisation panics: {} | text={:?} objects={}", p, text, hc.describe())); return; }
        Ok(Err(e)) => { run.bump(&format!("c-mode:err:{}", e)); return; }
        Ok(Ok(x)) => x,
    };
    if obs.c.is_empty() { run.bump("c-mode:empty"); return; }
    if obs.modified.len() != obs.original.len() { run.bump("text:length-changing-normalisation"); }
    else if obs.modified != obs.original { run.bump("text:normalised"); }

    // hypothesis TextOk of C09.units_exact on the real tables: mod_b2c at the byte offset of character k is k
    for (k, &b) in obs.c2b.iter().enumerate() {
        if obs.b2c.get(b) != Some(&k) {
            run.fail_with_line(idx, &format!("text={:?}", text), "tables:b2c-c2b", &format!("mod_b2c[mod_c2b[{}] = {}] = {:?} for text {:?}", k, b, obs.b2c.get(b), text));
            break;
        }
    }
    // direct tokenisation, and the same configuration switched to mode C (same subset): the path before splitting
    let dres = run_direct(dic, &opsd, &hd, &text);
    let mut opsdc = opsd.clone();
    opsdc.push(Op::Md(Mode::C));
    let pc: Vec<T9> = match run_direct(dic, &opsdc, &hd, &text) {
        Ok(Ok((ts, _, _, _))) => ts,
        _ => { run.bump("c-mode-of-direct-configuration:failed"); return; }
    };
    let same_paths = wire_list(&pc) == wire_list(&obs.c);
    if !same_paths { run.bump("c-paths-differ-between-subsets(on-demand-not-compared)"); }
    // the paths BETWEEN the path-rewrite plugins: the same histories on the same binaries loaded with the first 0, 1, ... plugins
    let mut st_d: Vec<Vec<T9>> = vec![];
    let mut st_c: Vec<Vec<T9>> = vec![];
    for sd in &w.stages {
        match (run_direct(sd, &opsdc, &hd, &text), run_direct(sd, &opsc, &hc, &text)) {
            (Ok(Ok((a, _, _, _))), Ok(Ok((b, _, _, _)))) => { st_d.push(a); st_c.push(b); }
            _ => { run.bump("stage-dictionary:failed"); return; }
        }
    }
    // on demand, every C morpheme into a cleared list; and all of them into one uncleared list.  Recycled cases: both
    // output lists held the result of other analyses (own input buffer, own nodes) before
    let mut od: Vec<Result<(bool, Vec<T9>), String>> = vec![];
    // second level: `split_into` of every sub-token the first call returned (units of units are NOT split by one call;
    // a second call on the unit splits it); and the deprecated `Morpheme::split` (units, or the node itself)
    let mut od2: Vec<Option<Vec<Result<(bool, Vec<T9>), String>>>> = vec![];
    let mut dp: Vec<Result<Vec<T9>, String>> = vec![];
    let mut out = MorphemeList::empty(dic);
    if recycled { let _ = catch(|| { let _ = apply_hist(dic, &[Op::New(Mode::C)], &ho, &mut out); }); }
    let cls = |r: Result<SudachiResult<(bool, Vec<T9>)>, String>| -> Result<(bool, Vec<T9>), String> {
        match r { Err(p) => Err(p), Ok(Err(e)) => Err(format!("err {}", err_class(&e))), Ok(Ok(x)) => Ok(x) }
    };
    for i in 0..mlc.len() {
        out.clear();
        let r = cls(catch(|| mlc.get(i).split_into(mode, &mut out).map(|flag| (flag, extract(&out, &obs.modified)))));
        let ok = r.is_ok();
        od.push(r);
        if ok {
            let mut out2 = MorphemeList::empty(dic);
            let mut lv = vec![];
            for k in 0..out.len() {
                out2.clear();
                lv.push(cls(catch(|| out.get(k).split_into(mode, &mut out2).map(|flag| (flag, extract(&out2, &obs.modified))))));
            }
            od2.push(Some(lv));
        } else { od2.push(None); }
        #[allow(deprecated)]
        let r = catch(|| mlc.get(i).split(mode).map(|l| extract(&l, &obs.modified)));
        dp.push(match r { Err(p) => Err(p), Ok(Err(e)) => Err(format!("err {}", err_class(&e))), Ok(Ok(x)) => Ok(x) });
    }
    // the stateless route (`StatelessTokenizer::tokenize` -> `into_morpheme_list` -> `from_components`): a rarely used entry
    // point; must give what a new stateful tokenizer of the mode gives
    let stateless = catch(|| {
        use sudachi::analysis::stateless_tokenizer::StatelessTokenizer;
        use sudachi::analysis::Tokenize;
        StatelessTokenizer::new(dic).tokenize(&text, mode, false).map(|l| (extract(&l, &obs.modified), l.subset().bits())).map_err(|e| err_class(&e))
    });
    let fresh_mode = if matches!(opsd.as_slice(), [Op::New(m)] if *m == mode) && !recycled { None } else { Some(run_direct(dic, &[Op::New(mode)], &Hist::fresh(), &text)) };
    let acc = catch(|| {
        let mut acc = MorphemeList::empty(dic);
        if recycled { let _ = apply_hist(dic, &[Op::New(Mode::A)], &ho, &mut acc); acc.clear(); }
        let mut flags = vec![];
        for i in 0..mlc.len() { flags.push(mlc.split_into(mode, i, &mut acc).unwrap_or(false)); }
        (flags, extract(&acc, &obs.modified))
    });
    // `new(C); set_subset(S); set_mode(M)` against a new mode-M tokenizer given the same S (C09.set_mode_then_* theorems):
    // set_mode does not re-normalise, the two subsets differ in the HEAD_WORD_LENGTH bit, the analyses must not differ at all
    let fresh_alt = match opsd.as_slice() {
        [Op::New(Mode::C), Op::Sub(sb), Op::Md(m)] if *m == mode => Some(run_direct(dic, &[Op::New(mode), Op::Sub(*sb)], &Hist::fresh(), &text)),
        _ => None,
    };

    // ---- correspondence line
    // the byte range of a path node is NOT sent: the model computes it from mod_c2b as resolve_best_path does
    // the joined nodes are sent as GROUPS of the nodes they were made from (kind of the plugin + parts); the model builds them
    // with its `concat_nodes` / `concat_oov_nodes`
    let (gd, gc) = match (group_wire(&st_d, &w.kinds, &pc), group_wire(&st_c, &w.kinds, &obs.c)) {
        (Some(a), Some(b)) => (a, b),
        _ => { run.fail_with_line(idx, &format!("text={:?}", text), "stage-paths-not-nested", &format!("the mode C path with all path-rewrite plugins is not a coarsening of the path with fewer plugins | text={:?}", text)); return; }
    };
    let path = format!("{} pathc={}", gd.0, gc.0);
    let payload = format!("{}opsd={} opsc={} odm={} lex={} b2c={} c2b={} m2o={} path={}", if d6fix { "d6fix=1 " } else { "" }, ops_wire(&opsd), ops_wire(&opsc), mode_char(mode), w.lex_wire,
        join(obs.b2c.iter(), ","), join(obs.c2b.iter(), ","), join(obs.m2o.iter(), ","), path);
    let dpart = match &dres {
        Err(_) => "PANIC".to_string(),
        Ok(Err(e)) => format!("err:{}", e),
        Ok(Ok((ts, bits, m, _))) => format!("{}:{}|{}", bits, mode_char(*m), wire_list_full(ts)),
    };
    let si_wire = |r: &Result<(bool, Vec<T9>), String>| -> String { match r { Err(p) if p.starts_with("err ") => "E".to_string(), Err(_) => "P".to_string(), Ok((f, ts)) => format!("{}{}", if *f { "T" } else { "F" }, wire_list_full(ts)) } };
    let odpart = od.iter().map(|r| si_wire(r)).collect::<Vec<_>>().join(";");
    let od2part = od2.iter().map(|x| match x { None => "-".to_string(), Some(lv) => lv.iter().map(|r| si_wire(r)).collect::<Vec<_>>().join("|") }).collect::<Vec<_>>().join(";");
    let dppart = dp.iter().map(|r| match r { Err(p) if p.starts_with("err ") => "E".to_string(), Err(_) => "P".to_string(), Ok(ts) => wire_list_full(ts) }).collect::<Vec<_>>().join(";");
    let mut split_any = false;

    // ---- oracle
    let opsdesc = format!("text={:?} mode={} direct-history={} c-history={} direct-objects={} c-objects={} out-list={} world={}", text, mode_char(mode), ops_wire(&opsd), ops_wire(&opsc), hd.describe(), hc.describe(), ho.describe(), w.desc.join(" "));
    let mut fails: Vec<(String, String)> = vec![];
    let ill_in_path = pc.iter().any(|t| !w.concat_ok(t.wid, mode));
    match &dres {
        Err(p) => {
            run.bump("direct:panic");
            if w.illformed && ill_in_path { fails.push(("d6-illformed:panic".into(), format!("tokenising in mode {} panics: {}", mode_char(mode), p))); }
            else { fails.push((format!("panic:mode-{}", mode_char(mode)), format!("tokenising panics: {}", p))); }
        }
        Ok(Err(e)) => { run.bump(&format!("direct:err:{}", e)); fails.push(("direct-error".into(), format!("mode C succeeds but mode {} returns {}", mode_char(mode), e))); }
        Ok(Ok((d, bits, dm, _))) => {
            run.bump("direct:ok");
            let need = match dm { Mode::A => SPLIT_A, Mode::B => SPLIT_B, Mode::C => 0 };
            if bits & need != 0 && bits & HWL == 0 { run.bump("direct:subset-without-HEAD_WORD_LENGTH-bit"); }
            let full = *bits == 1023;
            let tag = |k: &str, wid: u32| -> String {
                if !w.concat_ok(wid, mode) { format!("d6-illformed:{}", k) } else { k.to_string() }
            };
            // boundaries of C are boundaries of A/B (normalised characters and original bytes)
            let bc: BTreeSet<usize> = pc.iter().flat_map(|t| [t.cb, t.ce]).collect();
            let bd: BTreeSet<usize> = d.iter().flat_map(|t| [t.cb, t.ce]).collect();
            if !bc.is_subset(&bd) { fails.push(("refine:chars".into(), format!("mode C boundaries {:?} not all among mode {} boundaries {:?}", bc, mode_char(mode), bd))); }
            let oc: BTreeSet<usize> = pc.iter().flat_map(|t| [t.ob, t.oe]).collect();
            let odb: BTreeSet<usize> = d.iter().flat_map(|t| [t.ob, t.oe]).collect();
            if !oc.is_subset(&odb) { fails.push(("refine:bytes".into(), format!("mode C original-text boundaries {:?} not all among mode {} boundaries {:?}", oc, mode_char(mode), odb))); }
            // tokens made by the path-rewrite plugins (concat_nodes / concat_oov_nodes) are NEW words without units, whatever
            // their parts declare: unchanged in modes A/B (first sentence), nothing to split on demand (third sentence)
            for g in &gd.1 {
                if g.joined_by.is_empty() { continue; }
                for k in &g.joined_by { run.bump(if *k == 'N' { "joined:by-JoinNumeric(concat_nodes)" } else { "joined:by-JoinKatakanaOov(concat_oov_nodes)" }); }
                if g.joined_by.len() > 1 { run.bump("joined:by-both-plugins(nested)"); }
                if g.parts.len() == 1 { run.bump("joined:single-node(normalised-only)"); }
                if w.declared(g.parts[0].wid, mode).len() >= 2 { run.bump("joined:HEAD-declares-units-in-the-mode"); }
                if g.parts.iter().skip(1).any(|p| w.declared(p.wid, mode).len() >= 2) { run.bump("joined:later-part-declares-units-in-the-mode"); }
                if g.parts.len() > 1 && w.declared(g.parts[g.parts.len() - 1].wid, mode).len() >= 2 { run.bump("joined:LAST-part-declares-units-in-the-mode"); }
                if g.parts.iter().any(|p| (p.wid >> 28) == 15) { run.bump("joined:with-an-OOV-part"); }
                if g.parts.iter().any(|p| (p.wid >> 28) >= 1 && (p.wid >> 28) < 15) { run.bump("joined:with-a-user-dictionary-part"); }
                let what = format!("token chars {}..{} (word id {:#x}) joined by {:?} from words {:?}", g.node.cb, g.node.ce, g.node.wid, g.joined_by, g.parts.iter().map(|p| format!("{:#x}", p.wid)).collect::<Vec<_>>());
                if !g.node.a.is_empty() || !g.node.b.is_empty() { fails.push(("joined:carries-units".into(), format!("{} carries split units A {:?} B {:?}: a joined token is a new word that declares none", what, g.node.a, g.node.b))); }
                if W9::is_lex(g.node.wid) { fails.push(("joined:keeps-a-dictionary-id".into(), format!("{} still has the id of a dictionary word", what))); }
                if !d.iter().any(|x| x.cb == g.node.cb && x.ce == g.node.ce && x.wid == g.node.wid && x.bb == g.node.bb && x.be == g.node.be) {
                    fails.push(("joined:split-in-mode".into(), format!("{} is not a token of mode {}: {:?}", what, mode_char(mode), d.iter().map(|x| x.wire()).collect::<Vec<_>>())));
                }
            }
            // walk: every C token is either unchanged or replaced by its declared units
            let mut k = 0usize;
            for (ci, t) in pc.iter().enumerate() {
                let units = w.declared(t.wid, mode);
                run.bump(&format!("declared-units:{}", units.len().min(5)));
                if units.len() <= 1 {
                    match d.get(k) {
                        Some(x) if x.cb == t.cb && x.ce == t.ce && x.bb == t.bb && x.be == t.be && x.wid == t.wid && x.ob == t.ob && x.oe == t.oe && x.surface == t.surface
                            && (!full || false || x.same_token(t)) => {}
                        other => fails.push((tag("unchanged", t.wid), format!("C token {} ({:?}, {} declared units) is not unchanged in mode {}: {:?}", ci, t.surface, units.len(), mode_char(mode), other.map(|x| x.wire())))),
                    }
                    k += 1;
                } else {
                    split_any = true;
                    // hypothesis of the clause (established by lookup, C04): the token's text is the word's key
                    if let Some((row, _)) = w.row_of(t.wid) {
                        if t.norm_slice.as_deref() != Some(row.surface.as_str()) {
                            let key = if obs.modified.contains('\0') { "c04-nul-lookup:key-mismatch" } else { "lookup:key-mismatch" };
                            fails.push((key.into(), format!("C token {} is word {:#x} with key {:?} but covers {:?} of the normalised text (lookup returned a word whose key is not the text)", ci, t.wid, row.surface, t.norm_slice)));
                            k += units.len();
                            continue;
                        }
                    }
                    let widths: BTreeSet<usize> = units.iter().flat_map(|u| u.row.surface.chars().map(|c| c.len_utf8())).collect();
                    if widths.len() > 1 { run.bump("units:mixed-byte-widths"); }
                    for u in &units {
                        if u.row.left < 0 { run.bump("units:non-indexed-unit(left-id--1)"); }
                        let ud = (u.wid >> 28) as usize;
                        if w.dicts[ud].rows.iter().filter(|r| r.surface == u.row.surface).count() > 1 { run.bump("units:homograph-unit"); }
                        if w.declared(u.wid, mode).len() >= 2 { run.bump("units:unit-is-itself-a-compound(stays-whole:one-level-only)"); }
                        if (u.wid >> 28) != (t.wid >> 28) { run.bump("units:unit-of-another-dictionary"); }
                    }
                    if t.oe - t.ob != t.be - t.bb { run.bump("units:under-length-changing-normalisation"); }
                    let hi = (k + units.len()).min(d.len());
                    let subs = &d[k.min(d.len())..hi];
                    let wf = w.concat_ok(t.wid, mode);
                    if !wf {
                        // ILL-FORMED declaration (units do not concatenate to the key): the property's second sentence does not
                        // apply.  What the text still demands is judged elsewhere: no panic and C boundaries kept (first
                        // sentence: `refine:*`, `panic:*`), on demand = direct (third sentence: `ondemand:*`).  Clamped and
                        // zero-length units are allowed by the text; how many there are and how they lie is recorded, not judged.
                        run.bump("illformed-declaration:split");
                        if subs.iter().any(|x| x.cb == x.ce) { run.bump("illformed-declaration:zero-length-unit"); }
                        if subs.iter().zip(units.iter()).any(|(x, u)| x.cb != x.ce && x.norm_slice.as_deref() != Some(u.row.surface.as_str())) { run.bump("illformed-declaration:clamped-or-shifted-unit"); }
                    }
                    if let Some((kind, what)) = check_units(w, t, subs, &units, full, wf) {
                        if wf { fails.push((format!("units:{}", kind), format!("C token {} {:?} (word {:#x}): {}", ci, t.norm_slice, t.wid, what))); }
                        else { run.bump(&format!("illformed-declaration:{}(recorded,not-a-clause-of-C09)", kind)); let _ = what; }
                    }
                    k += units.len();
                }
            }
            if k != d.len() && fails.is_empty() { fails.push(("refine:count".into(), format!("mode {} has {} tokens, expected {}", mode_char(mode), d.len(), k))); }
            // the character route (begin()/end(), through mod_c2b) and the byte route (surface()) of every token agree
            for (i, x) in d.iter().enumerate() {
                let ok_c = obs.c2b.get(x.cb) == Some(&x.bb) && obs.c2b.get(x.ce) == Some(&x.be);
                let ok_s = x.ob <= x.oe && x.oe <= obs.original.len() && obs.original.is_char_boundary(x.ob) && obs.original.is_char_boundary(x.oe)
                    && x.surface.as_deref() == Some(&obs.original[x.ob..x.oe]);
                if !ok_c || !ok_s {
                    let wid = pc.iter().find(|t| t.cb <= x.cb && x.cb <= t.ce).map(|t| t.wid).unwrap_or(0);
                    fails.push((tag("units:char-byte", wid), format!("token {} of mode {}: characters {}..{} / bytes {}..{} / begin()..end() {}..{} / surface {:?} do not denote the same range", i, mode_char(mode), x.cb, x.ce, x.bb, x.be, x.ob, x.oe, x.surface)));
                    break;
                }
            }
            // chain of the whole direct path in the original text (hypothesis of C01.surfaces_partition)
            let mut prev = 0usize;
            for (i, x) in d.iter().enumerate() {
                if x.ob != prev || x.oe < x.ob {
                    let wid = pc.iter().find(|t| t.cb <= x.cb && x.cb <= t.ce).map(|t| t.wid).unwrap_or(0);
                    fails.push((tag("chain", wid), format!("token {} of mode {} has original range {}..{}, previous end {}", i, mode_char(mode), x.ob, x.oe, prev)));
                    break;
                }
                prev = x.oe;
            }
            if let Some(alt) = &fresh_alt {
                run.bump("direct:set_subset-in-C-then-set_mode(compared-with-new-tokenizer-of-that-mode)");
                match alt {
                    Ok(Ok((a, abits, _, _))) => {
                        if abits & !HWL != bits & !HWL { fails.push(("setmode-vs-fresh:subset".into(), format!("subset after set_subset-then-set_mode is {}, a new mode-{} tokenizer with the same request has {}: they differ in more than the HEAD_WORD_LENGTH bit", bits, mode_char(mode), abits))); }
                        if a != d { fails.push(("setmode-vs-fresh".into(), format!("set_subset in mode C followed by set_mode({}) gives {:?}; a new mode-{} tokenizer with the same set_subset gives {:?}", mode_char(mode), d.iter().map(|x| (x.wire(), x.hwl, x.headword.clone())).collect::<Vec<_>>(), mode_char(mode), a.iter().map(|x| (x.wire(), x.hwl, x.headword.clone())).collect::<Vec<_>>()))); }
                    }
                    _ => fails.push(("setmode-vs-fresh".into(), "a new tokenizer of the mode with the same set_subset fails, set_subset-then-set_mode succeeds".into())),
                }
            }
            // on demand == direct
            let c_need = match mode { Mode::A => SPLIT_A, Mode::B => SPLIT_B, Mode::C => 0 };
            if obs.c_subset & c_need == c_need && same_paths {
                let mut k = 0usize;
                let mut exp_acc: Vec<&T9> = vec![];
                for (ci, t) in obs.c.iter().enumerate() {
                    let units = w.declared(t.wid, mode);
                    let nu = units.len();
                    let direct_subs: &[T9] = if nu <= 1 { &d[k.min(d.len())..(k + 1).min(d.len())] } else { &d[k.min(d.len())..(k + nu).min(d.len())] };
                    k += if nu <= 1 { 1 } else { nu };
                    let key = |s: &str| -> String { if !w.concat_ok(t.wid, mode) { format!("d6-illformed:ondemand:{}", s) } else { format!("ondemand:{}", s) } };
                    match &od[ci] {
                        Err(p) => fails.push((key("panic"), format!("split_into of C token {} fails: {}", ci, p))),
                        Ok((flag, subs)) => {
                            if nu == 0 {
                                if *flag || !subs.is_empty() { fails.push((key("none"), format!("C token {} declares no units but split_into returned {} with {} tokens", ci, flag, subs.len()))); }
                            } else if nu == 1 {
                                run.bump("ondemand:one-unit");
                                if !*flag || subs.len() != 1 || subs[0].wid != units[0].wid || subs[0].cb != t.cb || subs[0].ce != t.ce || subs[0].ob != t.ob || subs[0].oe != t.oe {
                                    fails.push((key("one"), format!("C token {} declares one unit {:#x}; split_into returned {} {:?}", ci, units[0].wid, flag, subs.iter().map(|x| x.wire()).collect::<Vec<_>>())));
                                }
                                exp_acc.extend(subs.iter());
                            } else {
                                let same = subs.len() == direct_subs.len() && subs.iter().zip(direct_subs.iter()).all(|(a, b)| if full && obs.c_subset == 1023 { a.same_token(b) } else { a.wire() == b.wire() && a.surface == b.surface });
                                if !*flag || !same {
                                    fails.push((key("differs"), format!("C token {} ({} units): split_into returned {} {:?}, direct tokenisation has {:?}", ci, nu, flag, subs.iter().map(|x| x.wire()).collect::<Vec<_>>(), direct_subs.iter().map(|x| x.wire()).collect::<Vec<_>>())));
                                }
                                exp_acc.extend(direct_subs.iter());
                            }
                        }
                    }
                }
                match &acc {
                    Err(p) => { if !(w.illformed && ill_in_path) { fails.push(("ondemand:acc-panic".into(), format!("MorphemeList::split_into into one list panics: {}", p))); } }
                    Ok((_, ts)) => {
                        let same = ts.len() == exp_acc.len() && ts.iter().zip(exp_acc.iter()).all(|(a, b)| a.wire() == b.wire() && a.surface == b.surface);
                        if !same && fails.is_empty() { fails.push(("ondemand:accumulate".into(), format!("splitting every C token into one uncleared list gives {:?}, expected {:?}", ts.iter().map(|x| x.wire()).collect::<Vec<_>>(), exp_acc.iter().map(|x| x.wire()).collect::<Vec<_>>()))); }
                    }
                }
            } else if obs.c_subset & c_need != c_need {
                // the list was made without the split field of the requested mode: the documented opt-out
                // ("You need to load splits if you want to use Morpheme.split", subsetting.rst) - nothing is loaded, so
                // nothing may be split: false, nothing appended, no panic
                run.bump("ondemand:list-without-the-split-field(opt-out)");
                for (ci, r) in od.iter().enumerate() {
                    match r {
                        Ok((false, subs)) if subs.is_empty() => {}
                        other => { fails.push(("ondemand:optout".into(), format!("the mode C list was made with subset {} (no split field of mode {}); split_into of token {} returned {:?}", obs.c_subset, mode_char(mode), ci, other.as_ref().map(|(f, s)| (*f, s.len())).map_err(|e| e.clone())))); break; }
                    }
                }
            } else {
                run.bump("ondemand:not-compared(correspondence-only)");
            }
            // joined tokens of the C list: whatever the subset, nothing is split
            for (ci, g) in gc.1.iter().enumerate() {
                if g.joined_by.is_empty() { continue; }
                run.bump("ondemand:joined-token(must-report-nothing-split)");
                match od.get(ci) {
                    Some(Ok((false, subs))) if subs.is_empty() => {}
                    other => fails.push(("ondemand:joined-token-split".into(), format!("C token {} (chars {}..{}) was joined by {:?} from {} nodes; split_into returned {:?}", ci, g.node.cb, g.node.ce, g.joined_by, g.parts.len(), other.map(|r| r.as_ref().map(|(f, s)| (*f, s.iter().map(|x| x.wire()).collect::<Vec<_>>())).map_err(|e| e.clone()))))),
                }
            }
            // second level: a sub-token returned by split_into is split by a SECOND call exactly like a token of its own
            if obs.c_subset & c_need == c_need {
                for (ci, r) in od.iter().enumerate() {
                    let (subs, lv) = match (r, od2.get(ci)) { (Ok((true, subs)), Some(Some(lv))) => (subs, lv), _ => continue };
                    if !w.concat_ok(obs.c[ci].wid, mode) { continue; }
                    for (k, u) in subs.iter().enumerate() {
                        let units2 = w.declared(u.wid, mode);
                        match lv.get(k) {
                            Some(Ok((flag, subs2))) => {
                                if units2.is_empty() {
                                    if *flag || !subs2.is_empty() { fails.push(("second-level:none".into(), format!("unit {} of C token {} declares no units but a second split_into returned {} with {} tokens", k, ci, flag, subs2.len()))); }
                                } else if units2.len() == 1 { run.bump("second-level:one-unit");
                                } else {
                                    run.bump("second-level:unit-of-a-unit-split-by-a-second-call");
                                    if !*flag { fails.push(("second-level:flag".into(), format!("unit {} of C token {} declares {} units; the second split_into returned false", k, ci, units2.len()))); }
                                    else if w.concat_ok(u.wid, mode) {
                                        if let Some((kind, what)) = check_units(w, u, subs2, &units2, obs.c_subset == 1023, true) {
                                            fails.push((format!("second-level:units:{}", kind), format!("unit {} (word {:#x}) of C token {}: {}", k, u.wid, ci, what)));
                                        }
                                    }
                                }
                            }
                            Some(Err(p)) => fails.push(("second-level:panic".into(), format!("second split_into of unit {} of C token {} fails: {}", k, ci, p))),
                            None => {}
                        }
                    }
                }
            }
            // the deprecated Morpheme::split: the units split_into gives, or the token itself when it reports false
            for (ci, r) in od.iter().enumerate() {
                let exp: Option<Vec<String>> = match r { Ok((true, subs)) => Some(subs.iter().map(|x| x.wire_full()).collect()), Ok((false, _)) => Some(vec![obs.c[ci].wire_full()]), Err(_) => None };
                let got: Option<Vec<String>> = dp.get(ci).and_then(|x| x.as_ref().ok()).map(|ts| ts.iter().map(|x| x.wire_full()).collect());
                if exp != got {
                    fails.push(("deprecated-split".into(), format!("Morpheme::split({}) of C token {} gives {:?}; split_into gives {:?} (expected: its units, or the token itself)", mode_char(mode), ci, got, exp)));
                    break;
                }
            }
            // the stateless route
            let reference: Option<&Vec<T9>> = match &fresh_mode { None => Some(d), Some(Ok(Ok((x, _, _, _)))) => Some(x), _ => None };
            match (&stateless, reference) {
                (Ok(Ok((ts, bits))), Some(x)) => {
                    run.bump("stateless-tokenizer:compared");
                    if ts != x || *bits != 1023 { fails.push(("stateless-vs-stateful".into(), format!("StatelessTokenizer::tokenize(mode {}) gives {:?} (list subset {}); a new StatefulTokenizer of the mode gives {:?}", mode_char(mode), ts.iter().map(|x| x.wire_full()).collect::<Vec<_>>(), bits, x.iter().map(|x| x.wire_full()).collect::<Vec<_>>()))); }
                }
                (a, b) => { if !(a.as_ref().map(|x| x.is_err()).unwrap_or(true) && b.is_none()) { fails.push(("stateless-vs-stateful".into(), format!("StatelessTokenizer::tokenize(mode {}) {} while a new StatefulTokenizer of the mode {}", mode_char(mode), if matches!(a, Ok(Ok(_))) { "succeeds" } else { "fails" }, if b.is_some() { "succeeds" } else { "fails" }))); } }
            }
        }
    }
    let nontrivial = split_any && matches!(dres, Ok(Ok(_)));
    run.case(idx, "split", &payload, &format!("ok direct={} c={} ls={} od={} dp={} od2={}", dpart, wire_list_full(&obs.c), obs.list_subset, odpart, dppart, od2part), nontrivial);
    if obs.list_subset != obs.c_subset {
        run.fail(idx, "list-subset", &format!("collect_results left the list with subset {} although the tokenizer that made it had {} (split_into reads the units with the list's subset) | {}", obs.list_subset, obs.c_subset, opsdesc));
    }
    if let Some((k, what)) = fails.into_iter().next() {
        run.fail(idx, &k, &format!("{} | {}", what, opsdesc));
    }
}
