//! C14: path-rewrite plugins only merge adjacent tokens and preserve the text.
//!
//! Every case tokenises one text over one generated dictionary with the path-rewrite plugin stack
//! cut after 0, 1, .., n plugins.  The un-rewritten path (stack length 0) + the per-character class
//! masks + the numeric parser's outcomes (real parser, hook `verif_parse`) go to the Lean model,
//! which must reproduce the path produced by the full stack field by field.  Independently, the
//! oracle compares the Morpheme-level observation with and without the plugins.
use crate::common::*;
use crate::dict::*;
use std::collections::BTreeSet;
use std::sync::Arc;
use sudachi::analysis::node::{LatticeNode, PathCost, ResultNode, RightId};
use sudachi::analysis::stateful_tokenizer::StatefulTokenizer;
use sudachi::analysis::stateless_tokenizer::DictionaryAccess;
use sudachi::analysis::Mode;
use sudachi::dic::dictionary::JapaneseDictionary;
use sudachi::dic::subset::InfoSubset;
use sudachi::input_text::InputBuffer;
use sudachi::plugin::path_rewrite::join_numeric::verif_parse;
use sudachi::prelude::*;

const NUMERIC: u32 = 1 << 4;
const KANJINUMERIC: u32 = 1 << 8;
const KATAKANA: u32 = 1 << 7;
const NOOOVBOW: u32 = 1 << 30;
const WID_INVALID: u32 = 0xffff_ffff;
const GROUP: usize = 20;
const HANG_MS: u64 = 3000;

#[derive(Clone, Debug, PartialEq)]
pub struct NodeObs {
    b: usize, e: usize, bb: usize, eb: usize, wid: u32, tc: i32, left: u16, right: u16, cost: i16,
    pos: u16, hwl: u16, dfw: i32, a_split: Vec<u32>, b_split: Vec<u32>, w_struct: Vec<u32>, syn: Vec<u32>,
    surface: String, norm: String, reading: String, dform: String,
}

impl NodeObs {
    fn of(n: &ResultNode) -> NodeObs {
        let d = n.word_info().borrow_data();
        NodeObs {
            b: n.begin(), e: n.end(), bb: n.begin_bytes(), eb: n.end_bytes(), wid: n.word_id().as_raw(),
            tc: n.total_cost(), left: n.left_id(), right: n.right_id(), cost: n.cost(), pos: d.pos_id,
            hwl: d.head_word_length, dfw: d.dictionary_form_word_id,
            a_split: d.a_unit_split.iter().map(|w| w.as_raw()).collect(),
            b_split: d.b_unit_split.iter().map(|w| w.as_raw()).collect(),
            w_struct: d.word_structure.iter().map(|w| w.as_raw()).collect(),
            syn: d.synonym_group_ids.clone(),
            surface: d.surface.clone(), norm: d.normalized_form.clone(), reading: d.reading_form.clone(),
            dform: d.dictionary_form.clone(),
        }
    }
    fn norm_form(&self) -> &str {
        if self.norm.is_empty() { &self.surface } else { &self.norm }
    }
    fn wire(&self) -> String {
        format!("{}:{}:{}:{}:{}:{}:{}:{}:{}:{}:{}:{}:{}:{}:{}:{}:{}:{}:{}:{}",
            self.b, self.e, self.bb, self.eb, self.wid, self.tc, self.left, self.right, self.cost, self.pos,
            self.hwl, self.dfw, join(self.a_split.iter(), ","), join(self.b_split.iter(), ","),
            join(self.w_struct.iter(), ","), join(self.syn.iter(), ","),
            hex(self.surface.as_bytes()), hex(self.norm.as_bytes()), hex(self.reading.as_bytes()), hex(self.dform.as_bytes()))
    }
}

fn wire_path(p: &[NodeObs]) -> String {
    join(p.iter().map(|n| n.wire()), ";")
}

#[derive(Clone, Debug)]
pub struct Obs {
    cat: Vec<u32>,
    nodes: Vec<NodeObs>,
    toks: Vec<Tok>,
    /// what `ResultNode::split` (NodeSplitIterator) yields in modes A and B for every node of the path that declares units
    /// in that mode, asked directly (not through `split_path`): `b|e|wid|unit;unit;..` entries
    units: [Vec<String>; 2],
}

/// outcome classes of one analysis
#[derive(Clone, Debug)]
pub enum Ana {
    Ok(Obs),
    Err(String),
    Panic(String),
    Hang,
}

/// One analysis the way a long-lived analyser performs it: ONE `StatefulTokenizer` and ONE `MorphemeList` that
/// analysed the texts of `warm` before (reset / push_str / do_tokenize / collect_results; failures of the warm-up calls
/// are part of the history).  `collect_results` swaps the tokenizer's input buffer and path vector with the list's, so
/// the text meets the buffers of the call before last.  `warm` empty = new objects.  The `ResultNode`s are read by
/// swapping the result out of the tokenizer and back in before the list collects it.
fn analyse_here(dic: Arc<JapaneseDictionary>, warm: &[String], text: &str, mode: Mode) -> Result<Obs, String> {
    let mut tok = StatefulTokenizer::new(dic.clone(), mode);
    let mut ml = MorphemeList::empty(dic.clone());
    for wt in warm {
        tok.reset().push_str(wt);
        if tok.do_tokenize().is_ok() {
            let _ = ml.collect_results(&mut tok);
        }
    }
    tok.reset().push_str(text);
    tok.do_tokenize().map_err(|e| err_class(&e))?;
    let cat = tok.verif_input().verif_tables().mod_cat;
    let mut input = InputBuffer::default();
    let mut path: Vec<ResultNode> = Vec::new();
    let mut subset = InfoSubset::all();
    tok.swap_result(&mut input, &mut path, &mut subset);
    let nodes: Vec<NodeObs> = path.iter().map(NodeObs::of).collect();
    let mut units: [Vec<String>; 2] = [vec![], vec![]];
    if mode == Mode::C {
        for (k, m) in [Mode::A, Mode::B].into_iter().enumerate() {
            for n in path.iter() {
                if n.num_splits(m) >= 1 {
                    let us: Vec<String> = n.split(m, dic.lexicon(), subset, &input).map(|u| NodeObs::of(&u).wire()).collect();
                    units[k].push(format!("{}|{}|{}|{}", n.begin(), n.end(), n.word_id().as_raw(), us.join(";")));
                }
            }
        }
    }
    tok.swap_result(&mut input, &mut path, &mut subset);
    ml.collect_results(&mut tok).map_err(|e| err_class(&e))?;
    let toks = toks_of(&ml);
    Ok(Obs { cat, nodes, toks, units })
}

/// run the analysis on a worker thread so that a non-terminating rewrite loop is an observation
/// (`Hang`) instead of a stuck check; the stuck thread dies with the process
pub fn analyse(dic: &Arc<JapaneseDictionary>, text: &str, mode: Mode) -> Ana {
    analyse_after(dic, &[], text, mode)
}

pub fn analyse_after(dic: &Arc<JapaneseDictionary>, warm: &[String], text: &str, mode: Mode) -> Ana {
    let (tx, rx) = std::sync::mpsc::channel();
    let d = dic.clone();
    let t = text.to_string();
    let w = warm.to_vec();
    std::thread::spawn(move || {
        let r = catch(|| analyse_here(d, &w, &t, mode));
        let _ = tx.send(r);
    });
    match rx.recv_timeout(std::time::Duration::from_millis(HANG_MS)) {
        Err(_) => Ana::Hang,
        Ok(Err(p)) => Ana::Panic(p),
        Ok(Ok(Err(e))) => Ana::Err(e),
        Ok(Ok(Ok(o))) => Ana::Ok(o),
    }
}

/// which variant of `JoinNumericPlugin::rewrite_gen` the harness is built against (Lean `NVariant`):
/// `fix` = a COMMA/POINT error restarts the run only if the flag was still set (repair of F2),
/// `cur` = the loop of the pinned tree.  Probed in the source of the linked sudachi crate.
pub(crate) fn numeric_variant() -> &'static str {
    static V: std::sync::OnceLock<&'static str> = std::sync::OnceLock::new();
    *V.get_or_init(|| {
        let p = format!("{}/src/plugin/path_rewrite/join_numeric/mod.rs", crate::c07::repo_sudachi_dir());
        match std::fs::read_to_string(p) {
            // whitespace-insensitive: rustfmt may break the condition over several lines
            Ok(s) if s.split_whitespace().collect::<Vec<_>>().join(" ").contains("&& comma_as_digit {") => "fix",
            _ => "cur",
        }
    })
}

// ------------------------------------------------------------------------------------------------
// dictionaries

const KANJI_NUM: &[char] = &['〇', '一', '二', '三', '五', '十', '百', '千', '万', '億'];
const KATA: &[char] = &['ア', 'イ', 'ウ', 'ー', 'ァ', 'カ'];

#[derive(Clone, Debug, PartialEq)]
pub enum Plug {
    /// `implicit`: the key `enableNormalize` is left out of the settings (`set_up`: `unwrap_or(true)`); only with `normalize == true`
    Numeric { normalize: bool, implicit: bool },
    Katakana { min_length: usize, pos: usize },
}

impl Plug {
    fn json(&self) -> String {
        match self {
            Plug::Numeric { normalize, implicit } => if *implicit && *normalize {
                r#"{"class":"com.worksap.nlp.sudachi.JoinNumericPlugin"}"#.to_string()
            } else {
                format!(r#"{{"class":"com.worksap.nlp.sudachi.JoinNumericPlugin","enableNormalize":{}}}"#, normalize)
            },
            Plug::Katakana { min_length, pos } => {
                let p = &POS[*pos];
                format!(
                    r#"{{"class":"com.worksap.nlp.sudachi.JoinKatakanaOovPlugin","oovPOS":["{}","{}","{}","{}","{}","{}"],"minLength":{}}}"#,
                    p[0], p[1], p[2], p[3], p[4], p[5], min_length)
            }
        }
    }
}

pub struct World {
    wd: Workdir,
    system: Vec<u8>,
    input_plugins: Vec<String>,
    oov_plugins: Vec<String>,
    pub rows: Vec<Row>,
    pub chardef_extra: String,
    /// 0, 1 or 2 user dictionaries (dictionary ids 1 and 2): `concat_oov_nodes` takes the dictionary id of the joined token
    /// from the largest word id of the block
    users: Vec<Vec<u8>>,
    pub user_words: Vec<String>,
}

fn numeral_row(s: &str, n_ids: usize, rng: &mut Rng, pos: usize) -> Row {
    Row::simple(s, rng.below(n_ids) as i32, rng.below(n_ids) as i32, rng.below(6000) as i32, pos)
}

/// extra rows that make up a directed world (index = directed id), None for random worlds
fn directed_rows(directed: Option<usize>) -> Vec<(&'static str, &'static str, usize)> {
    // (surface, normalized form, pos)
    match directed {
        // a numeric-class surface whose normalised form is a separator: the restart
        // `i = begin_idx - 1` repeats for ever (comma / period)
        Some(0) => vec![("7", ",", NUMERAL)],
        Some(1) => vec![("7", ".", NUMERAL)],
        Some(2) => vec![("7", "1,,2", NUMERAL)],
        // a plain world for F3: every digit a numeral whose normalised form is its surface, separators as symbols,
        // no class oddities
        Some(4) => vec![("1", "1", NUMERAL), ("2", "2", NUMERAL), ("3", "3", NUMERAL), ("4", "4", NUMERAL), ("5", "5", NUMERAL),
                        (",", ",", SYMBOL), (".", ".", SYMBOL)],
        // the numeral gate: every digit a numeral, `24` a cheap proper noun (not a numeral), `、`/`。` normalise to the separators
        Some(5) => vec![("0", "0", NUMERAL), ("2", "2", NUMERAL), ("4", "4", NUMERAL), ("5", "5", NUMERAL), ("7", "7", NUMERAL), ("1", "1", NUMERAL),
                        ("3", "3", NUMERAL), ("24", "24", 5), ("、", ",", SYMBOL), ("。", ".", SYMBOL)],
        _ => vec![],
    }
}

impl World {
    pub fn build(seed: u64, group: usize, directed: Option<usize>) -> Result<World, String> {
        let mut rng = Rng::for_case(seed ^ 0xC14C14, 1_000_000 + group);
        let n_ids = rng.range(1, 4);
        let mut rows: Vec<Row> = vec![];
        // every POS once so that the ids are stable: the grammar numbers POS by first appearance
        let firsts = ["あ", "0", "い", "。", "う", "東"];
        for (p, s) in firsts.iter().enumerate() {
            rows.push(numeral_row(s, n_ids, &mut rng, p));
        }
        // digits: mostly numerals, some with another POS, some missing (=> OOV)
        for d in '1'..='9' {
            if rng.chance(1, 7) { continue; }
            let pos = if rng.chance(1, 6) { NOUN } else { NUMERAL };
            let mut r = numeral_row(&d.to_string(), n_ids, &mut rng, pos);
            if rng.chance(1, 12) { r.norm = KANJI_NUM[(d as usize - '0' as usize) % 5].to_string(); }
            rows.push(r);
        }
        for w in ["10", "00", "123", "25", "000"] {
            if rng.chance(1, 3) {
                let pos = if rng.chance(1, 6) { NOUN } else { NUMERAL };
                rows.push(numeral_row(w, n_ids, &mut rng, pos));
            }
        }
        for &k in KANJI_NUM {
            if rng.chance(1, 6) { continue; }
            let pos = if rng.chance(1, 8) { NOUN } else { NUMERAL };
            let mut r = numeral_row(&k.to_string(), n_ids, &mut rng, pos);
            if rng.chance(1, 6) {
                r.norm = match k { '〇' => "0", '一' => "1", '二' => "2", '三' => "3", '五' => "5", _ => "10" }.to_string();
            }
            rows.push(r);
        }
        for w in ["二十", "三百", "十万", "一二", "1万", "2千"] {
            if rng.chance(1, 3) { rows.push(numeral_row(w, n_ids, &mut rng, NUMERAL)); }
        }
        for w in [",", "."] {
            if rng.chance(4, 5) {
                let pos = if rng.chance(1, 5) { NUMERAL } else { SYMBOL };
                rows.push(numeral_row(w, n_ids, &mut rng, pos));
            }
        }
        // separators recognised by their NORMALISED form: `、` => `,` and `。` => `.` (rewrite_gen compares normalized_form())
        if rng.chance(1, 3) {
            let mut r = numeral_row("、", n_ids, &mut rng, SYMBOL);
            r.norm = ",".to_string();
            rows.push(r);
        }
        if rng.chance(1, 3) { rows[3].norm = ".".to_string(); }   // the row `。`
        // katakana words of length 1..4 (minLength 0..4 makes the short ones joinable)
        for _ in 0..rng.range(2, 7) {
            let w = rand_word(&mut rng, &KATA[..4], 4);
            let pos = *rng.pick(&[NOUN, NOUN, 5, NUMERAL]);
            let mut r = numeral_row(&w, n_ids, &mut rng, pos);
            if rng.chance(1, 4) { r.reading = rand_word(&mut rng, &['ア', 'カ'], 3); }
            if rng.chance(1, 5) { r.norm = rand_word(&mut rng, &KATA[..3], 3); }
            // a headword (dictionary-side surface) that differs from the key, also in length and script:
            // the merged token's range must come from the merged ranges, never from the headword
            if rng.chance(1, 3) { r.headword = rng.pick(&["上", "ｋｉｌｏ", "アイウエオ", "ア", "kilo", "𠮷野"]).to_string(); }
            rows.push(r);
        }
        if rng.chance(1, 3) { rows.push(numeral_row("ァ", n_ids, &mut rng, NOUN)); }
        // fillers
        for w in ["京", "都", "東京", "a", "b", "ab", "!", " ", "あい", "円", "3ア", "ア1"] {
            if rng.chance(1, 2) {
                let pos = *rng.pick(&[NOUN, 2, SYMBOL, 4, 5]);
                rows.push(numeral_row(w, n_ids, &mut rng, pos));
            }
        }
        for (s, nf, pos) in directed_rows(directed) {
            let mut r = numeral_row(s, n_ids, &mut rng, pos);
            r.cost = if s.chars().count() > 1 { -9000 } else { -3000 };
            r.norm = nf.to_string();
            rows.retain(|x| x.surface != s);
            rows.push(r);
        }
        // compound NUMERALS with declared units (二十 = 二/十): when such a word heads a joined run, the joined token is a
        // new word without units - in modes A/B it must stay whole
        for w in ["二十", "三百", "十万", "一二", "1万", "2千"] {
            if let Some(ci) = rows.iter().position(|r| r.surface == w) {
                let parts: Vec<Option<usize>> = w.chars().map(|c| rows.iter().position(|r| r.surface == c.to_string())).collect();
                if parts.iter().all(|p| p.is_some()) && rng.chance(2, 3) {
                    let ids = parts.iter().map(|p| p.unwrap().to_string()).collect::<Vec<_>>().join("/");
                    rows[ci].mode = 'C';
                    rows[ci].split_a = ids.clone();
                    if rng.chance(1, 2) { rows[ci].wstruct = ids.clone(); }
                    if rng.chance(1, 2) { rows[ci].split_b = ids; }
                    rows[ci].cost = -2000;
                }
            }
        }
        // an A-split compound so that merged nodes visibly lose their splits
        if rng.chance(1, 2) {
            let a = rows.iter().position(|r| r.surface.chars().all(|c| KATA.contains(&c)));
            if let Some(a) = a {
                let s = format!("{}{}", rows[a].surface, rows[a].surface);
                let mut r = numeral_row(&s, n_ids, &mut rng, NOUN);
                r.mode = 'C';
                r.split_a = format!("{}/{}", a, a);
                r.split_b = r.split_a.clone();
                rows.push(r);
            }
        }
        // synonym groups (a merged token is a new word without them; a kept token keeps them)
        for r in rows.iter_mut() {
            if rng.chance(1, 3) { r.syn = join((0..rng.range(1, 3)).map(|_| rng.below(500) as u32), "/"); }
            // numerals with a reading of their own: the joined token's reading form is the concatenation of the RAW fields
            let numeral = r.surface.chars().all(|c| c.is_ascii_digit() || KANJI_NUM.contains(&c) || c == ',' || c == '.');
            if numeral && rng.chance(1, 3) { r.reading = rng.pick(&["イチ", "ニ", "サン", "ゼロ", "ジュウ"]).to_string(); }
        }
        let pos = default_pos();
        let csv = csv_of(&rows, &pos);
        let matrix = Matrix::random(&mut rng, n_ids, n_ids, false);
        let system = build_system(csv.as_bytes(), matrix.text().as_bytes())?;

        let wd = Workdir::new_legacy(&format!("c14-{}-{}", group, directed.map_or(-1, |d| d as i64)));
        let mut chardef = std::fs::read_to_string(wd.path.join("char.def")).unwrap();
        let mut extra = String::new();
        for &k in KANJI_NUM {
            extra.push_str(&format!("0x{:04X} KANJINUMERIC\n", k as u32));
        }
        extra.push_str("0x5146 KANJINUMERIC\n");
        // optional oddities: more NOOOVBOW characters, a katakana that is also numeric, a digit that is katakana
        for (p, line) in [(4, "0x30A4 NOOOVBOW\n"), (5, "0x30FC NOOOVBOW\n"), (8, "0x30A6 NUMERIC\n"), (8, "0x0035 KATAKANA\n"),
                          (8, "0x30A2 NOOOVBOW\n"), (10, "0x002E KATAKANA\n")] {
            if rng.chance(1, p) && directed.map_or(true, |d| d < 4) { extra.push_str(line); }
        }
        // characters of every UTF-8 width in the two classes the plugins look at: 2 bytes (U+0663 ARABIC-INDIC DIGIT THREE,
        // U+0436 CYRILLIC ZHE) and 4 bytes (U+10107 AEGEAN NUMBER ONE, U+1B000 KATAKANA LETTER ARCHAIC E); the 1- and 3-byte
        // ones are the ASCII digits and the kana; without the line the character is class DEFAULT (ends a run)
        for line in ["0x0663 NUMERIC\n", "0x0436 KATAKANA\n", "0x10107 NUMERIC\n", "0x1B000 KATAKANA\n"] {
            if rng.chance(2, 3) && directed.is_none() { extra.push_str(line); }
        }
        // a separator that is numeric by class: together with a malformed grouping the restart never ends
        if directed == Some(3) { extra.push_str("0x002C NUMERIC\n"); }
        extra.push_str("KATAKANA 1 1 2\nNUMERIC 1 1 0\nKANJINUMERIC 1 1 0\nHIRAGANA 0 1 2\n");
        chardef.push_str("\n");
        chardef.push_str(&extra);
        wd.write("char.def", &chardef);
        let id = |rng: &mut Rng| rng.below(n_ids);
        let mut unk = String::new();
        let pj = |p: usize| POS[p].join(",");
        unk.push_str(&format!("DEFAULT,{},{},{},{}\n", id(&mut rng), id(&mut rng), 4000 + rng.below(3000), pj(SYMBOL)));
        unk.push_str(&format!("KATAKANA,{},{},{},{}\n", id(&mut rng), id(&mut rng), 2000 + rng.below(6000), pj(NOUN)));
        if rng.chance(1, 2) { unk.push_str(&format!("KATAKANA,{},{},{},{}\n", id(&mut rng), id(&mut rng), 2000 + rng.below(6000), pj(5))); }
        unk.push_str(&format!("NUMERIC,{},{},{},{}\n", id(&mut rng), id(&mut rng), 2000 + rng.below(6000), pj(if rng.chance(1, 4) { NOUN } else { NUMERAL })));
        unk.push_str(&format!("KANJINUMERIC,{},{},{},{}\n", id(&mut rng), id(&mut rng), 2000 + rng.below(6000), pj(NUMERAL)));
        unk.push_str(&format!("HIRAGANA,{},{},{},{}\n", id(&mut rng), id(&mut rng), 5000 + rng.below(6000), pj(NOUN)));
        wd.write("unk.def", &unk);

        let mut input_plugins = vec![];
        if rng.chance(1, 2) {
            input_plugins.push(r#"{"class":"com.worksap.nlp.sudachi.DefaultInputTextPlugin"}"#.to_string());
        }
        let mut oov_plugins = vec![];
        if rng.chance(1, 2) {
            oov_plugins.push(r#"{"class":"com.worksap.nlp.sudachi.MeCabOovPlugin"}"#.to_string());
        }
        oov_plugins.push(simple_oov_json(id(&mut rng) as i64, id(&mut rng) as i64, 3000 + rng.below(6000) as i64));
        let mut users: Vec<Vec<u8>> = vec![];
        let mut user_words: Vec<String> = vec![];
        let n_users = if directed.is_some() { 0 } else { *rng.pick(&[0usize, 0, 1, 1, 2]) };
        if n_users > 0 {
            let cfg0 = config_json(&wd, &input_plugins, &oov_plugins, &[], &[]);
            let sysdic = load(&cfg0, system.clone(), vec![])?;
            for u in 0..n_users {
                let ws: &[&str] = if u == 0 { &["カ", "イカ", "ウカ", "99", "ァ"] } else { &["ウ", "カア", "アカ", "55", "イ"] };
                let mut urows = vec![];
                for w in ws {
                    if rng.chance(1, 4) { continue; }
                    let digit = w.chars().all(|c| c.is_ascii_digit());
                    let p = if digit { NUMERAL } else { *rng.pick(&[NOUN, NOUN, 5]) };
                    let mut r = numeral_row(w, n_ids, &mut rng, p);
                    r.cost = -1500 - rng.below(2500) as i32;
                    if !digit { user_words.push(w.to_string()); }
                    urows.push(r);
                }
                if urows.is_empty() { urows.push(numeral_row("カ", n_ids, &mut rng, NOUN)); user_words.push("カ".to_string()); }
                users.push(build_user(&sysdic, csv_of(&urows, &pos).as_bytes())?);
            }
        }
        Ok(World { wd, system, input_plugins, oov_plugins, rows, chardef_extra: extra, users, user_words })
    }

    pub fn load(&self, plugins: &[Plug]) -> Result<Arc<JapaneseDictionary>, String> {
        let pr: Vec<String> = plugins.iter().map(|p| p.json()).collect();
        let cfg = config_json(&self.wd, &self.input_plugins, &self.oov_plugins, &pr, &[]);
        load(&cfg, self.system.clone(), self.users.clone()).map(Arc::new)
    }
}

// ------------------------------------------------------------------------------------------------
// texts

fn gen_arabic(rng: &mut Rng) -> String {
    fn d(rng: &mut Rng, lo: usize, hi: usize) -> String {
        let n = rng.range(lo, hi);
        // now and then a 2-byte (U+0663) or a 4-byte (U+10107) character that char.def may class NUMERIC (the parser rejects it)
        (0..n).map(|_| if rng.chance(1, 14) { *rng.pick(&['\u{0663}', '\u{10107}']) } else { *rng.pick(&['0', '1', '2', '3', '5', '7', '9']) }).collect()
    }
    match rng.below(14) {
        0 => d(rng, 1, 4),
        1 => format!("{},{}", d(rng, 1, 3), d(rng, 3, 3)),
        2 => format!("{},{},{}", d(rng, 1, 3), d(rng, 3, 3), d(rng, 3, 3)),
        3 => format!("{},{}", d(rng, 1, 3), d(rng, 1, 2)),     // bad group
        4 => format!("{},", d(rng, 1, 3)),                      // trailing comma
        5 => format!(",{}", d(rng, 1, 3)),                      // leading comma
        6 => format!("{}.{}", d(rng, 1, 3), d(rng, 1, 3)),
        7 => format!("{}.", d(rng, 1, 3)),                      // dangling point
        8 => format!(".{}", d(rng, 1, 2)),
        9 => format!("{}.{}.{}", d(rng, 1, 1), d(rng, 1, 1), d(rng, 1, 1)),
        10 => format!("{},{}.{}", d(rng, 1, 1), d(rng, 3, 3), d(rng, 1, 2)),
        11 => format!("{},,{}", d(rng, 1, 1), d(rng, 3, 3)),
        12 => format!("{},{},", d(rng, 2, 2), d(rng, 3, 3)),
        _ => format!("{}.{},{}", d(rng, 1, 1), d(rng, 1, 1), d(rng, 3, 3)),
    }
}

fn gen_kanji_num(rng: &mut Rng) -> String {
    match rng.below(6) {
        0 => rand_word(rng, KANJI_NUM, 4),
        1 => format!("{}{}", gen_arabic(rng), rng.pick(&['万', '千', '億', '百'])),
        2 => format!("{}{}", rand_word(rng, &KANJI_NUM[1..5], 2), rng.pick(&['十', '百', '千', '万'])),
        3 => format!("{}.{}", rand_word(rng, &KANJI_NUM[..5], 2), rand_word(rng, &KANJI_NUM[..5], 2)),
        4 => format!("{}{}", rand_word(rng, &KANJI_NUM[..5], 2), gen_arabic(rng)),
        _ => "億万".to_string(),
    }
}

fn gen_kata(rng: &mut Rng, words: &[String]) -> String {
    // dictionary words (not OOV: joinable only through minLength) next to each other / to OOV characters
    if !words.is_empty() && rng.chance(2, 5) {
        let a = rng.pick(words).clone();
        return match rng.below(4) {
            0 => a,
            1 => format!("{}{}", a, rng.pick(words)),
            2 => format!("{}カ", a),
            _ => format!("カ{}", a),
        };
    }
    match rng.below(6) {
        // a 2-byte (U+0436) or 4-byte (U+1B000) character that char.def may class KATAKANA inside a katakana run
        5 => format!("{}{}{}", rand_word(rng, &KATA[..3], 2), rng.pick(&['\u{0436}', '\u{1B000}']), if rng.chance(1, 2) { rand_word(rng, &KATA[..3], 2) } else { String::new() }),
        0 => rng.pick(KATA).to_string(),
        1 => rand_word(rng, KATA, 5),
        2 => format!("ァ{}", rand_word(rng, KATA, 3)),
        3 => rand_word(rng, &KATA[..3], 3),
        _ => format!("{}カ{}", rand_word(rng, &KATA[..4], 2), rand_word(rng, &KATA[..4], 2)),
    }
}

fn gen_filler(rng: &mut Rng) -> String {
    rng.pick(&["あ", "い", "う", "東京", "都", "京", "a", "b", "ab", "!", " ", "。", "円", "漢", "、", "あい", "(", "３", "Ａ", "ｱ", "㌔", ""]).to_string()
}

pub fn gen_text(rng: &mut Rng, words: &[String]) -> String {
    gen_text_c(rng, words, &[])
}

/// `compounds`: numerals of the lexicon that declare A/B units (二十 = 二/十): placed at the head, in the middle and at
/// the end of a numeral run, so that the joined token is built from a word WITH units
pub fn gen_text_c(rng: &mut Rng, words: &[String], compounds: &[String]) -> String {
    if !compounds.is_empty() && rng.chance(1, 5) {
        let c = rng.pick(compounds).clone();
        let d = |rng: &mut Rng| rng.pick(&["1", "2", "3", "一", "二", "五", "十", "万", "5", "00"]).to_string();
        let core = match rng.below(4) { 0 => format!("{}{}", c, d(rng)), 1 => format!("{}{}", d(rng), c), 2 => format!("{}{}{}", d(rng), c, d(rng)), _ => c };
        return match rng.below(4) { 0 => core, 1 => format!("{}{}", core, gen_filler(rng)), 2 => format!("{}{}", gen_kata(rng, words), core), _ => format!("{}{}{}", gen_filler(rng), core, gen_kata(rng, words)) };
    }
    if rng.chance(1, 12) {
        let pool: Vec<char> = "0123,.一十万アイウーァカあ東a 5,.".chars().collect();
        return rand_text(rng, &pool, 10);
    }
    let n = rng.range(1, 5);
    let mut s = String::new();
    for k in 0..n {
        let edge = k == 0 || k == n - 1;
        let r = rng.below(if edge { 8 } else { 10 });
        let seg = match r {
            0 | 1 | 2 => gen_arabic(rng),
            3 => gen_kanji_num(rng),
            4 | 5 | 6 => gen_kata(rng, words),
            _ => gen_filler(rng),
        };
        if s.chars().count() + seg.chars().count() > 22 { break; }
        s.push_str(&seg);
    }
    s
}

fn gen_stack(rng: &mut Rng) -> Vec<Plug> {
    let num = |rng: &mut Rng| { let normalize = rng.chance(1, 2); Plug::Numeric { normalize, implicit: normalize && rng.chance(1, 3) } };
    // minLength: 0..4 mostly; now and then beyond every word (5, 8, 30) and huge (every dictionary word is "shorter")
    let kat = |rng: &mut Rng| Plug::Katakana { min_length: if rng.chance(1, 10) { *rng.pick(&[5usize, 8, 30, 1_000_000, usize::MAX >> 1]) } else { rng.below(5) }, pos: *rng.pick(&[NOUN, NOUN, 5, SYMBOL]) };
    match rng.below(12) {
        // the same plugin twice with the same settings: running a plugin on its own output changes nothing
        10 => { let p = num(rng); vec![p.clone(), p] }
        11 => { let p = kat(rng); vec![p.clone(), p] }
        0 | 1 => vec![num(rng)],
        2 | 3 => vec![kat(rng)],
        4 | 5 | 6 => vec![num(rng), kat(rng)],
        7 | 8 => vec![kat(rng), num(rng)],
        _ => { let mut v = vec![num(rng), kat(rng)]; v.push(if rng.chance(1, 2) { num(rng) } else { kat(rng) }); v }
    }
}

/// directed cases: (directed world, stack, text)
fn directed(idx: usize) -> Option<(Option<usize>, Vec<Plug>, &'static str)> {
    let n1 = || vec![Plug::Numeric { normalize: true, implicit: false }];
    let n0 = || vec![Plug::Numeric { normalize: false, implicit: false }];
    let k = |m| vec![Plug::Katakana { min_length: m, pos: NOUN }];
    let both = |m| vec![Plug::Numeric { normalize: true, implicit: false }, Plug::Katakana { min_length: m, pos: NOUN }];
    Some(match idx {
        0 => (Some(0), n1(), "あ7あ"),
        1 => (Some(1), n1(), "7"),
        2 => (Some(2), n0(), "7ア"),
        3 => (Some(3), n1(), "あ1,,2"),
        4 => (None, n1(), "アイ2,000"),
        5 => (None, both(3), "1,000,アイウ1.5."),
        6 => (None, both(0), "ァアイ"),
        7 => (None, k(4), "アイウカ1"),
        8 => (None, n1(), "一"),
        9 => (None, n0(), "一,二"),
        10 => (None, both(2), "2,50ア.5"),
        11 => (None, n1(), "1,"),
        12 => (None, n1(), ".5あ"),
        13 => (None, k(1), "カ"),
        14 => (None, both(4), ""),
        15 => (None, n1(), "二十三万5千"),
        16 => (None, n1(), "1,000アイ"),
        // F3: the numeral joiner is not idempotent - the first run gives up on `1,234,` when the `.` is rejected with a
        // COMMA error and restarts without separators; the second run meets `5.5` as one non-numeric token and joins `1,234`
        17 => (Some(4), vec![Plug::Numeric { normalize: true, implicit: false }, Plug::Numeric { normalize: true, implicit: false }], "1,234,5.5"),
        18 => (Some(4), vec![Plug::Numeric { normalize: false, implicit: false }, Plug::Numeric { normalize: false, implicit: false }], "1,234,5.5あ"),
        19 => (None, vec![Plug::Katakana { min_length: 2, pos: NOUN }, Plug::Katakana { min_length: 2, pos: NOUN }], "ーアイウカ1ァア"),
        // both orders of the two plugins on the same text
        20 => (None, vec![Plug::Katakana { min_length: 1, pos: NOUN }, Plug::Numeric { normalize: true, implicit: false }], "1,000,アイウ1.5."),
        // the gate of JoinNumericPlugin::concat (seeded change C14c): a run whose HEAD is an all-digit word with another part of
        // speech (`24` proper noun) followed by numerals is left alone; the same digits headed by a numeral are joined;
        // enableNormalize left out of the settings (default true)
        21 => (Some(5), vec![Plug::Numeric { normalize: true, implicit: true }], "247"),
        22 => (Some(5), n0(), "7247あ24"),
        23 => (Some(5), vec![Plug::Numeric { normalize: false, implicit: false }, Plug::Katakana { min_length: 0, pos: NOUN }], "アイ2470"),
        // separators recognised by their NORMALISED form (`、` => `,`, `。` => `.`), not by their surface
        24 => (Some(5), n1(), "1、000。5"),
        // observation (no clause violated): after a CLOSED gate rewrite_gen still sets `i = begin_idx + 1`: the node after the
        // head is skipped and the rest of the run is scanned again as a run of its own - `24|7|5|3|あ` becomes `24|7|53|あ`,
        // while the same digits at the end of the text (tail case, no re-scan) stay `24|7|5|3`
        25 => (Some(5), n0(), "24753あ"),
        26 => (Some(5), n0(), "24753"),
        _ => return None,
    })
}
const N_DIRECTED: usize = 27;
/// the first directed cases do not terminate on the unchanged tree: they are run last so that the
/// stuck worker threads do not compete with the rest of the run
const N_HANG: usize = 4;

// ------------------------------------------------------------------------------------------------

/// earlier texts of a long-lived analyser: other lengths (longer AND shorter), empty ones, rejected ones
fn gen_warm(rng: &mut Rng, words: &[String]) -> Vec<String> {
    let n = rng.range(1, 4);
    (0..n).map(|_| match rng.below(8) {
        0 => String::new(),
        1 => "1".repeat(49_200),                      // rejected: InputTooLong
        2 => { let mut t = String::new(); for _ in 0..rng.range(3, 6) { t.push_str(&gen_text(rng, words)); } t }  // longer
        3 => "アイ1,000.5カ二十万ウー".to_string(),
        4 => rng.pick(&["1", "ア", "一", ","]).to_string(),  // shorter
        _ => gen_text(rng, words),
    }).collect()
}

fn warm_desc(warm: &[String]) -> String {
    format!("[{}]", join(warm.iter().map(|w| if w.len() > 80 { format!("<{} bytes>", w.len()) } else { format!("{:?}", w) }), ","))
}

fn is_candidate(n: &NodeObs, cat: &[u32]) -> bool {
    let s = n.norm_form();
    s == "," || s == "." || (n.b..n.e.min(cat.len())).any(|i| cat[i] & (NUMERIC | KANJINUMERIC) != 0)
}

/// Input distribution of the numeral joiner's gate (`JoinNumericPlugin::concat` tests the part of speech of the FIRST node
/// of a run; `concat_nodes` copies the part of speech of that node): for every maximal run of candidate nodes of the
/// un-rewritten path with at least two nodes, what heads it and whether a numeral follows a head that is none
/// (the condition of seeded change C14c).
fn gate_stats(base: &Obs, num_pos: u16) -> Vec<String> {
    let mut out = vec![];
    let n = &base.nodes;
    let mut i = 0;
    while i < n.len() {
        if !is_candidate(&n[i], &base.cat) { i += 1; continue; }
        let mut j = i;
        while j < n.len() && is_candidate(&n[j], &base.cat) { j += 1; }
        if j - i >= 2 {
            let sep = |k: usize| { let s = n[k].norm_form(); s == "," || s == "." };
            let later = n[i + 1..j].iter().any(|p| p.pos == num_pos);
            out.push(format!("numeral-run:head-{}{}", if sep(i) { "separator" } else if n[i].pos == num_pos { "numeral" } else if n[i].wid >> 28 == 15 { "oov-other-pos" } else { "word-other-pos" },
                if n[i].pos == num_pos { "" } else if later { ":numeral-follows" } else { ":no-numeral" }));
            if n[i..j].iter().any(|p| p.surface != p.norm_form() && (p.norm_form() == "," || p.norm_form() == ".")) { out.push("numeral-run:separator-by-normalised-form".into()); }
        } else {
            out.push(format!("numeral-run:single-{}", if n[i].pos == num_pos { "numeral" } else { "other" }));
        }
        i = j;
    }
    out
}

fn parser_queries(paths: &[&Vec<NodeObs>], cat: &[u32]) -> BTreeSet<String> {
    let mut qs = BTreeSet::new();
    for p in paths {
        for b in 0..p.len() {
            let mut s = String::new();
            for j in b..p.len() {
                if !is_candidate(&p[j], cat) { break; }
                s.push_str(p[j].norm_form());
                if s.len() > 200 { break; }
                qs.insert(s.clone());
            }
        }
    }
    qs
}

fn plug_wire(p: &Plug, pos_ids: &[u16]) -> String {
    match p {
        // enableNormalize left out of the settings: the field is EMPTY on the wire and the model applies the default of `set_up`
        Plug::Numeric { normalize, implicit } => if *implicit && *normalize { format!("N::{}", pos_ids[NUMERAL]) } else { format!("N:{}:{}", *normalize as u8, pos_ids[NUMERAL]) },
        Plug::Katakana { min_length, pos } => format!("K:{}:{}", min_length, pos_ids[*pos]),
    }
}

fn tok_diff(a: &Tok, b: &Tok) -> Vec<&'static str> {
    let mut d = vec![];
    if (a.begin, a.end, a.begin_c, a.end_c) != (b.begin, b.end, b.begin_c, b.end_c) { d.push("range"); }
    if a.surface != b.surface { d.push("surface"); }
    if a.wi_surface != b.wi_surface { d.push("wi_surface"); }
    if a.word_id != b.word_id || a.dict_id != b.dict_id { d.push("word_id"); }
    if a.is_oov != b.is_oov { d.push("is_oov"); }
    if a.pos_id != b.pos_id || a.pos != b.pos { d.push("pos"); }
    if a.norm != b.norm { d.push("norm"); }
    if a.dict_form != b.dict_form { d.push("dict_form"); }
    if a.reading != b.reading { d.push("reading"); }
    if a.total_cost != b.total_cost { d.push("total_cost"); }
    if a.head_len != b.head_len { d.push("head_len"); }
    d
}

/// The property itself, on the implementation's observations only.
/// Returns (key, description) of the first violated clause.
fn oracle(base: &Obs, with: &Obs, stack: &[Plug], pos_ids: &[u16], stats: &mut Vec<String>, mode_c: bool) -> Option<(String, String)> {
    let (n0, n1) = (&base.nodes, &with.nodes);
    let (t0, t1) = (&base.toks, &with.toks);
    if n0.len() != t0.len() || n1.len() != t1.len() {
        return Some(("c14:shape".into(), "node list and morpheme list differ in length".into()));
    }
    let num_pos = pos_ids[NUMERAL];
    let has_numeric = stack.iter().any(|p| matches!(p, Plug::Numeric { .. }));
    let has_norm = stack.iter().any(|p| matches!(p, Plug::Numeric { normalize: true, .. }));
    let kat_pos: Vec<u16> = stack.iter().filter_map(|p| if let Plug::Katakana { pos, .. } = p { Some(pos_ids[*pos]) } else { None }).collect();
    let mut j = 0usize; // index into the un-rewritten path
    for (k, m) in n1.iter().enumerate() {
        // clause 1: boundaries with plugins are boundaries without: the token starts where token j starts ...
        if j >= n0.len() || n0[j].b != m.b || n0[j].bb != m.bb {
            return Some(("c14:boundary".into(), format!("token {} begins at char {} (byte {}), which is not the next boundary of the un-rewritten path", k, m.b, m.bb)));
        }
        // ... and ends at the end of some later token
        let mut l = j;
        while l < n0.len() && n0[l].e < m.e { l += 1; }
        if l >= n0.len() || n0[l].e != m.e || n0[l].eb != m.eb {
            return Some(("c14:boundary".into(), format!("token {} ends at char {} (byte {}), not a boundary of the un-rewritten path", k, m.e, m.eb)));
        }
        let blk = &t0[j..=l];
        let tm = &t1[k];
        if l > j {
            stats.push(format!("merge:{}", (l - j + 1).min(6)));
            if mode_c {
                // UTF-8 widths of the characters under the merged token, and which plugin made it / which dictionary id it got
                let mut ws: Vec<usize> = tm.surface.chars().map(|c| c.len_utf8()).collect();
                ws.sort(); ws.dedup();
                stats.push(format!("merged-token-char-widths:{}", join(ws.iter(), "+")));
                if m.wid == WID_INVALID { stats.push("merged-by:numeral-joiner".into()); }
                else {
                    stats.push(format!("merged-by:katakana-joiner:dic{}{}", m.wid >> 28, if m.wid >> 28 == 15 { "(oov)" } else { "" }));
                    let dics: BTreeSet<u32> = n0[j..=l].iter().map(|p| p.wid >> 28).collect();
                    stats.push(format!("katakana-block-dictionaries:{}", join(dics.iter(), "+")));
                }
            }
            // clause 2: range = union of the merged ranges (original-text offsets as reported)
            if (tm.begin, tm.begin_c) != (blk[0].begin, blk[0].begin_c) || (tm.end, tm.end_c) != (blk[blk.len() - 1].end, blk[blk.len() - 1].end_c) {
                return Some(("c14:merged-range".into(), format!("merged token {} reports {}..{}, parts span {}..{}", k, tm.begin, tm.end, blk[0].begin, blk[blk.len() - 1].end)));
            }
            // clause 3: dictionary-side surface = concatenation
            // (in modes A/B the un-rewritten tokens under a merged token are split UNITS, whose dictionary-side
            // surfaces and POS are not those of the merged C-mode tokens: clauses 3 and 4 are judged in mode C)
            let cat: String = blk.iter().map(|t| t.wi_surface.as_str()).collect();
            if mode_c && tm.wi_surface != cat {
                return Some(("c14:merged-surface".into(), format!("merged token {} has dictionary-side surface {:?}, concatenation of its parts is {:?}", k, tm.wi_surface, cat)));
            }
            // observation (no clause of the property): concat_nodes concatenates the RAW normalised / reading forms, in which
            // "same as the surface" is the empty string, so a part whose form is its surface is dropped from the joined form
            if mode_c && m.wid == WID_INVALID && !has_norm {
                let cn: String = blk.iter().map(|t| t.norm.as_str()).collect();
                if tm.norm != cn { stats.push("observation:merged-form-drops-part:normalized".into()); }
                let cr: String = blk.iter().map(|t| t.reading.as_str()).collect();
                if tm.reading != cr { stats.push("observation:merged-form-drops-part:reading".into()); }
            }
            // clause 4: prescribed part of speech
            let numeric_ok = has_numeric && tm.pos_id == num_pos && blk[0].pos_id == num_pos;
            let kat_ok = kat_pos.contains(&tm.pos_id);
            let ok = if kat_pos.is_empty() { numeric_ok } else if !has_numeric { kat_ok } else { numeric_ok || kat_ok };
            if mode_c && !ok {
                return Some(("c14:merged-pos".into(), format!("merged token {} ({:?}) has POS id {}; first part has {}, numeral POS is {}, configured OOV POS {:?}", k, tm.wi_surface, tm.pos_id, blk[0].pos_id, num_pos, kat_pos)));
            }
            // the katakana joiner's own rules (Lean: C14.katakana_merged_block_classes, katakana_join_decision), judged on the
            // class masks of the text: a token it made (it has a word id, the numeral joiner's tokens have none) covers
            // katakana characters only, does not begin with a NOOOVBOW character, and - when no numeral joiner runs before
            // it - one of its parts is OOV or shorter than a configured minLength
            if mode_c && m.wid != WID_INVALID {
                let cat = &base.cat;
                let all_kat = (m.b..m.e).all(|i| i < cat.len() && cat[i] & KATAKANA != 0);
                if !all_kat {
                    return Some(("c14:katakana-merged-class".into(), format!("token {} ({:?}, chars {}..{}) was joined by the katakana plugin but covers a character that is not KATAKANA", k, tm.wi_surface, m.b, m.e)));
                }
                if m.b < cat.len() && cat[m.b] & NOOOVBOW != 0 {
                    return Some(("c14:katakana-merged-bow".into(), format!("token {} ({:?}) was joined by the katakana plugin and begins with a NOOOVBOW character (char {})", k, tm.wi_surface, m.b)));
                }
                let max_min = stack.iter().filter_map(|p| if let Plug::Katakana { min_length, .. } = p { Some(*min_length) } else { None }).max().unwrap_or(0);
                // the triggering node lies in the maximal katakana run, possibly among the skipped NOOOVBOW-initial nodes
                // before the joined block
                let mut lo = j;
                while lo > 0 && (n0[lo - 1].b..n0[lo - 1].e).all(|i| i < cat.len() && cat[i] & KATAKANA != 0) { lo -= 1; }
                if !has_numeric && !n0[lo..=l].iter().any(|p| p.wid >> 28 == 15 || p.e - p.b < max_min) {
                    return Some(("c14:katakana-merged-trigger".into(), format!("token {} ({:?}) was joined by the katakana plugin although no node of its katakana run ({} nodes) is OOV or shorter than minLength {}", k, tm.wi_surface, l - lo + 1, max_min)));
                }
            }
        } else {
            // clause 5: a token that is not part of a merge is reported unchanged
            let d = tok_diff(&blk[0], tm);
            if !d.is_empty() {
                let renorm = has_norm && blk[0].pos_id == num_pos && tm.word_id == WID_INVALID && tm.pos_id == num_pos
                    && !d.iter().any(|f| ["range", "surface", "wi_surface", "pos", "total_cost", "head_len"].contains(f));
                let key = if renorm { "c14:unmerged-changed:numeric-renorm".to_string() } else { format!("c14:unmerged-changed:{}", d.join("+")) };
                return Some((key, format!("token {} ({:?}) is not merged with a neighbour but differs in {}: without plugins word_id={:#x} norm={:?} is_oov={}, with plugins word_id={:#x} norm={:?} is_oov={}",
                    k, tm.wi_surface, d.join(","), blk[0].word_id, blk[0].norm, blk[0].is_oov, tm.word_id, tm.norm, tm.is_oov)));
            }
            // ... in EVERY field of the node and its word info (units, word structure, synonym groups, connection ids, cost)
            if n0[j] != *m {
                return Some(("c14:unmerged-changed:node".into(), format!("token {} ({:?}) is not merged with a neighbour but its node differs: without plugins {}, with plugins {}", k, tm.wi_surface, n0[j].wire(), m.wire())));
            }
        }
        j = l + 1;
    }
    if j != n0.len() {
        return Some(("c14:dropped".into(), format!("the rewritten path ends after {} of {} un-rewritten tokens", j, n0.len())));
    }
    None
}

// ------------------------------------------------------------------------------------------------
// op `plug`: the plugins of the configured stack are called ONE BY ONE, directly (`PathRewritePlugin::rewrite`), each call
// under catch_unwind, on a path that is either the analyser's un-rewritten path as it is or a perturbation of it that
// does NOT tile the text; the answer is the outcome class of every run (ok / err / PANIC / HANG) and the final path.
// Lean: C14.rewrite_stack_never_panics (as-is paths: every class must be ok - oracle `c14:plug:*`),
// C14.never_panics_needs_tiling_counterexample (perturbed paths: the model must name the same failing run).

fn build_node(o: &NodeObs) -> ResultNode {
    use sudachi::dic::lexicon::word_infos::WordInfoData;
    use sudachi::dic::word_id::WordId;
    let wi = WordInfoData {
        surface: o.surface.clone(),
        head_word_length: o.hwl,
        pos_id: o.pos,
        normalized_form: o.norm.clone(),
        dictionary_form_word_id: o.dfw,
        dictionary_form: o.dform.clone(),
        reading_form: o.reading.clone(),
        a_unit_split: o.a_split.iter().map(|w| WordId::from_raw(*w)).collect(),
        b_unit_split: o.b_split.iter().map(|w| WordId::from_raw(*w)).collect(),
        word_structure: o.w_struct.iter().map(|w| WordId::from_raw(*w)).collect(),
        synonym_group_ids: o.syn.clone(),
    };
    let inner = sudachi::analysis::Node::new(o.b as u16, o.e as u16, o.left, o.right, o.cost, WordId::from_raw(o.wid));
    ResultNode::new(inner, o.tc, o.bb as u16, o.eb as u16, wi.into())
}

const PERTURBATIONS: &[&str] = &["as-is", "end-beyond-text", "reversed-chars", "reversed-bytes", "huge-head-word-lengths",
    "drop-node", "swap-nodes", "duplicate-node", "begin-at-text-end"];

/// a path that does not tile the text (kinds 1..): one local change of the analyser's path; all offsets stay below 65536
fn perturb(kind: usize, nodes: &[NodeObs], ncat: usize, rng: &mut Rng) -> Vec<NodeObs> {
    let mut p = nodes.to_vec();
    if p.is_empty() || kind == 0 { return p; }
    let k = rng.below(p.len());
    match kind {
        1 => { p[k].e = (ncat + 1 + rng.below(3)).min(65_000); }
        2 => { p[k].b = (p[k].e + 1).min(65_000); }
        3 => { p[k].bb = (p[k].eb + 1 + rng.below(7)).min(65_000); }
        4 => { p[k].hwl = 40_000; if k + 1 < p.len() { p[k + 1].hwl = 30_000; } else if k > 0 { p[k - 1].hwl = 30_000; } }
        5 => { p.remove(k); }
        6 => { if k + 1 < p.len() { p.swap(k, k + 1); } else if k > 0 { p.swap(k - 1, k); } }
        7 => { let n = p[k].clone(); p.insert(k, n); }
        _ => { p[k].b = ncat.min(65_000); p[k].e = (ncat + 1).min(65_000); }
    }
    p
}

enum PlugMsg { Step(&'static str, Option<Vec<NodeObs>>), Done }

/// outcome class of every plugin run of the stack of `full` on `nodes` (text buffer of `text` as `base` builds it), the
/// paths after the successful runs, and the final path if every run succeeded
fn plug_run(base: &Arc<JapaneseDictionary>, full: &Arc<JapaneseDictionary>, text: &str, nodes: &[NodeObs]) -> (Vec<String>, Vec<Vec<NodeObs>>) {
    let (tx, rx) = std::sync::mpsc::channel();
    let (b, f, t, ns) = (base.clone(), full.clone(), text.to_string(), nodes.to_vec());
    std::thread::spawn(move || {
        let mut tok = StatefulTokenizer::new(b.clone(), Mode::C);
        tok.reset().push_str(&t);
        if catch(|| tok.do_tokenize().is_ok()) != Ok(true) { let _ = tx.send(PlugMsg::Done); return; }
        let mut input = InputBuffer::default();
        let mut old: Vec<ResultNode> = Vec::new();
        let mut subset = InfoSubset::all();
        tok.swap_result(&mut input, &mut old, &mut subset);
        let lattice = sudachi::analysis::lattice::Lattice::default();
        let mut path: Vec<ResultNode> = ns.iter().map(build_node).collect();
        for pl in f.path_rewrite_plugins() {
            let taken = std::mem::take(&mut path);
            match catch(|| pl.rewrite(&input, taken, &lattice)) {
                Ok(Ok(p)) => { let _ = tx.send(PlugMsg::Step("ok", Some(p.iter().map(NodeObs::of).collect()))); path = p; }
                Ok(Err(_)) => { let _ = tx.send(PlugMsg::Step("err", None)); break; }
                Err(_) => { let _ = tx.send(PlugMsg::Step("PANIC", None)); break; }
            }
        }
        let _ = tx.send(PlugMsg::Done);
    });
    let mut classes = vec![];
    let mut paths = vec![];
    let deadline = std::time::Instant::now() + std::time::Duration::from_millis(HANG_MS);
    loop {
        let left = deadline.saturating_duration_since(std::time::Instant::now());
        match rx.recv_timeout(left) {
            Ok(PlugMsg::Step(c, p)) => { classes.push(c.to_string()); if let Some(p) = p { paths.push(p); } }
            Ok(PlugMsg::Done) => break,
            Err(_) => { classes.push("HANG".to_string()); break; }
        }
    }
    (classes, paths)
}

/// one `plug` case: returns true if some run did not end `ok`
fn plug_case(run: &mut Run, idx: usize, kind: usize, base: &Obs, dics: &[Arc<JapaneseDictionary>], stack: &[Plug], pos_ids: &[u16], text: &str, textkey: &str) {
    // hypothesis of C14.tiles_from_node_bounds on the analyser's own path: head_word_length <= byte length, node by node;
    // and the path tiles the text (contiguous, non-empty nodes, from (0,0) to the end of the class table)
    if let Some(n) = base.nodes.iter().find(|n| n.eb < n.bb || (n.hwl as usize) > n.eb - n.bb) {
        run.fail_with_line(idx, "", "c14:assumption:hwl-le-bytes", &format!("text {:?} [{}]: node {}..{} (bytes {}..{}) has head_word_length {}", text, textkey, n.b, n.e, n.bb, n.eb, n.hwl));
    }
    let tiles = base.nodes.windows(2).all(|w| w[0].e == w[1].b && w[0].eb == w[1].bb) && base.nodes.iter().all(|n| n.b < n.e && n.e <= base.cat.len())
        && base.nodes.first().map_or(base.cat.is_empty(), |n| n.b == 0 && n.bb == 0) && base.nodes.last().map_or(true, |n| n.e == base.cat.len());
    if !tiles {
        run.fail_with_line(idx, "", "c14:assumption:path-tiles-text", &format!("text {:?} [{}]: the un-rewritten path does not tile the text", text, textkey));
    }
    run.bump("assumption:tiles-and-hwl-checked");
    let mut rng = Rng::for_case(run.opts.seed.wrapping_add(0xC14), idx);
    let nodes = perturb(kind, &base.nodes, base.cat.len(), &mut rng);
    let kind = if nodes == base.nodes { 0 } else { kind };
    let (classes, paths) = plug_run(&dics[0], &dics[stack.len()], text, &nodes);
    let all_ok = classes.len() == stack.len() && classes.iter().all(|c| c == "ok");
    let mut qpaths: Vec<&Vec<NodeObs>> = vec![&nodes];
    for p in &paths { qpaths.push(p); }
    let mut pq = vec![];
    for q in parser_queries(&qpaths, &base.cat) {
        if let Ok((n, err, done, norm)) = catch(|| verif_parse(&q)) {
            pq.push(format!("{}:{}:{}:{}:{}", hex(q.as_bytes()), n, err, done as u8, hex(norm.as_bytes())));
        }
    }
    let payload = format!("trace=1 nv={} cat={} plugins={} path={} pq={}", numeric_variant(), join(base.cat.iter(), ","),
        join(stack.iter().map(|p| plug_wire(p, pos_ids)), ";"), wire_path(&nodes), pq.join(";"));
    let last = classes.last().cloned().unwrap_or_else(|| "ok".to_string());
    let fin = if all_ok { format!("ok {}", wire_path(paths.last().unwrap_or(&nodes))) } else if last == "ok" { "BROKEN".to_string() } else { last.clone() };
    let answer = format!("runs={} {}", classes.join(","), fin);
    run.bump(&format!("plug:path:{}", PERTURBATIONS[kind]));
    run.bump(&format!("plug:outcome:{}:{}", if kind == 0 { "tiling" } else { "not-tiling" }, if all_ok { "ok".to_string() } else { format!("{}@run{}", last, classes.len()) }));
    run.case(idx, "plug", &payload, &answer, !all_ok || paths.last().map_or(false, |p| *p != nodes));
    // the property on the implementation: on the analyser's own path (it tiles the text) no plugin run panics, fails or hangs
    if kind == 0 && !all_ok {
        let key = format!("c14:plug:{}", match last.as_str() { "PANIC" => "panic", "err" => "error", "HANG" => "hang", _ => "broken" });
        run.bump(&format!("oracle:{}", key));
        run.fail(idx, &key, &format!("text {:?} [{}] stack {:?}: run {} of the plugin stack, called directly on the un-rewritten path of the analyser, ends {} (classes {:?})", text, textkey, stack, classes.len(), last, classes));
    }
}

pub fn run(run: &mut Run) {
    run.rule = "texts of numerals (valid/invalid comma and point groupings, kanji numerals and units, compound numerals that declare A/B units at the \
head/middle/end of a run), katakana runs (dictionary words of 1-4 characters with own headword/reading/normalised form, OOV characters, NOOOVBOW \
characters) and fillers, numerals/katakana preferably at the text edges and adjacent; random lexicon (digits with numeral or other POS, missing digits, \
odd normalised forms, readings, synonym groups, word structure), random connection matrix, optional MeCab OOV and default input-text plugin; plugin \
stacks N, K, NK, KN, NK+1, NN and KK (same settings twice) with enableNormalize in {true,false}, minLength 0..4, three OOV POS; about half of the generated \
cases analyse WITH the plugins on a recycled tokenizer + result list (1-4 earlier texts: longer, shorter, empty, rejected), the reference without \
plugins on new objects; half of the cases also in modes A and B (split paths in the answer line); non-trivial = the rewritten path differs from the \
un-rewritten path; distinct by payload".into();
    let n = run.opts.count;
    run.bump(&format!("numeric-loop-variant:{}", numeric_variant()));
    // hypothesis SepNotFirst of C14.rewrite_stack_always_ok: the real parser rejects `,` and `.` as the first character
    for sep in [",", "."] {
        match catch(|| verif_parse(sep)) {
            Ok((0, _, _, _)) => run.bump("assumption:sep-not-first:holds"),
            other => run.fail_with_line(0, "", "c14:assumption:sep-not-first", &format!("NumericParser accepts {:?} as the first character of a number ({:?}): hypothesis SepNotFirst of C14.rewrite_stack_always_ok does not hold for the code", sep, other.map(|r| r.0))),
        }
    }
    let mut cached: Option<(usize, Option<usize>, Result<World, String>)> = None;
    // every non-terminating analysis leaves a spinning worker thread behind: give up early
    let mut hangs = 0usize;
    const MAX_HANGS: usize = 8;
    for idx in (N_HANG.min(n)..n).chain(0..N_HANG.min(n)) {
        if !run.wants(idx) { continue; }
        if hangs >= MAX_HANGS {
            run.bump("stopped-after-too-many-hangs");
            run.fail_with_line(idx, "", "c14:hang:budget", &format!("{} analyses did not terminate; the run was stopped at case {}", hangs, idx));
            break;
        }
        let mut rng = Rng::for_case(run.opts.seed, idx);
        let (dworld, stack, dtext) = match directed(idx) {
            Some((dw, st, tx)) => (dw, st, Some(tx.to_string())),
            None => (None, gen_stack(&mut rng), None),
        };
        let group = if idx < N_DIRECTED { 0 } else { idx / GROUP };
        let fresh = match &cached { Some((g, d, _)) => *g != group || *d != dworld, None => true };
        if fresh {
            cached = None; // drop the previous work directory first
            cached = Some((group, dworld, World::build(run.opts.seed, group, dworld)));
        }
        let world = match &cached.as_ref().unwrap().2 {
            Ok(w) => w,
            Err(e) => { run.bump(&format!("world-build-failed:{}", e.chars().take(40).collect::<String>())); continue; }
        };
        let text = match dtext {
            Some(t) => t,
            None => {
                let mut words: Vec<String> = world.rows.iter().filter(|r| r.left >= 0 && r.surface.chars().all(|c| KATA.contains(&c))).map(|r| r.surface.clone()).collect();
                words.extend(world.user_words.iter().cloned());
                let compounds: Vec<String> = world.rows.iter().filter(|r| r.split_a.contains('/') && r.surface.chars().all(|c| !KATA.contains(&c))).map(|r| r.surface.clone()).collect();
                let t = gen_text_c(&mut rng, &words, &compounds);
                // separators that are separators only by their NORMALISED form (lexicon rows `、` => `,`, `。` => `.`)
                if rng.chance(1, 8) && (t.contains(',') || t.contains('.')) {
                    run.bump("text:separators-by-normalised-form");
                    t.replace(',', "、").replace('.', "。")
                } else { t }
            }
        };
        run.bump(&format!("user-dictionaries:{}", world.users.len()));
        for (c, k) in [('\u{0663}', "text:2-byte-numeric-candidate"), ('\u{10107}', "text:4-byte-numeric-candidate"), ('\u{0436}', "text:2-byte-katakana-candidate"), ('\u{1B000}', "text:4-byte-katakana-candidate")] {
            if text.contains(c) { run.bump(k); }
        }
        if stack.iter().any(|p| matches!(p, Plug::Numeric { implicit: true, .. })) { run.bump("numeric-settings:enableNormalize-omitted"); }
        // stack prefixes 0..=n
        let mut dics = vec![];
        let mut bad = None;
        for k in 0..=stack.len() {
            match world.load(&stack[..k]) {
                Ok(d) => dics.push(d),
                Err(e) => { bad = Some(e); break; }
            }
        }
        if let Some(e) = bad {
            run.bump(&format!("load-failed:{}", e.chars().take(160).collect::<String>()));
            continue;
        }
        // POS ids as this dictionary's grammar numbers them
        let pos_ids: Vec<u16> = POS.iter().map(|p| dics[0].grammar().get_part_of_speech_id(&p[..]).unwrap_or(u16::MAX)).collect();
        let base = match analyse(&dics[0], &text, Mode::C) {
            Ana::Ok(o) => o,
            Ana::Err(e) => { run.bump(&format!("base-error:{}", e.chars().take(30).collect::<String>())); continue; }
            Ana::Panic(_) => { run.bump("base-panic"); continue; }
            Ana::Hang => { run.bump("base-hang"); continue; }
        };
        // about half of the generated cases run the analyses WITH the plugins on recycled objects (one tokenizer + one
        // result list that analysed 1-4 other texts before); the un-rewritten reference stays on new objects, and the
        // expected answer is the same: the property does not depend on history
        let warm: Vec<String> = if idx >= N_DIRECTED && rng.chance(1, 2) {
            let words: Vec<String> = world.rows.iter().filter(|r| r.left >= 0 && r.surface.chars().all(|c| KATA.contains(&c))).map(|r| r.surface.clone()).collect();
            gen_warm(&mut rng, &words)
        } else { vec![] };
        run.bump(&format!("history:{}-earlier-texts", warm.len()));
        for w in &warm {
            run.bump(if w.is_empty() { "history-text:empty" } else if w.len() > 49_149 { "history-text:rejected" }
                else if w.chars().count() > text.chars().count() { "history-text:longer" } else { "history-text:not-longer" });
        }
        // intermediate paths (for the parser table) and the final one
        let mut inter: Vec<Obs> = vec![];
        let mut fin: Option<Ana> = None;
        for k in 1..=stack.len() {
            let a = analyse_after(&dics[k], &warm, &text, Mode::C);
            match a {
                Ana::Ok(o) if k < stack.len() => inter.push(o),
                other => { fin = Some(other); break; }
            }
        }
        let fin = fin.unwrap();
        let mut paths: Vec<&Vec<NodeObs>> = vec![&base.nodes];
        for o in &inter { paths.push(&o.nodes); }
        let mut pq = vec![];
        for q in parser_queries(&paths, &base.cat) {
            if let Ok((n, err, done, norm)) = catch(|| verif_parse(&q)) {
                pq.push(format!("{}:{}:{}:{}:{}", hex(q.as_bytes()), n, err, done as u8, hex(norm.as_bytes())));
            } else {
                run.bump("parser-hook-panic");
            }
        }
        let mut payload = format!("nv={} cat={} plugins={} path={} pq={}", numeric_variant(), join(base.cat.iter(), ","),
            join(stack.iter().map(|p| plug_wire(p, &pos_ids)), ";"), wire_path(&base.nodes), pq.join(";"));
        run.bump(&format!("stack:{}", join(stack.iter().map(|p| match p { Plug::Numeric { normalize, implicit } => format!("N{}", if *implicit { "d".to_string() } else { (*normalize as u8).to_string() }), Plug::Katakana { min_length, .. } => format!("K{}", if *min_length > 4 { "big".to_string() } else { min_length.to_string() }) }), "")));
        run.bump(&format!("path-len:{}", (base.nodes.len() / 4) * 4));
        if stack.iter().any(|p| matches!(p, Plug::Numeric { .. })) {
            for k in gate_stats(&base, pos_ids[NUMERAL]) { run.bump(&k); }
        }
        run.bump_by("parser-queries", pq.len() as u64);
        let textkey: String = text.chars().map(|c| format!("{:x}", c as u32)).collect::<Vec<_>>().join(".");
        let hist = if warm.is_empty() { String::new() } else { format!(" after earlier texts {} on the same tokenizer and result list", warm_desc(&warm)) };
        match fin {
            Ana::Ok(with) => {
                let changed = with.nodes != base.nodes;
                run.bump(if changed { "outcome:rewritten" } else { "outcome:unchanged" });
                if idx == 25 || idx == 26 {
                    run.bump(&format!("observation:closed-gate-rescan:{}:{}", if idx == 25 { "24|7|5|3|あ" } else { "24|7|5|3" }, join(with.toks.iter().map(|t| t.surface.clone()), "|")));
                }
                // A/B modes: the plugins run before the split; the split stage is part of the model (unit tables of the
                // un-rewritten words are shipped, the model must reproduce the split path of the full stack)
                let mut answer = format!("ok {}", wire_path(&with.nodes));
                let mut ab: Vec<(Mode, Obs, Ana)> = vec![];
                if run.opts.thorough || idx % 2 == 0 {
                    for mode in [Mode::A, Mode::B] {
                        if let Ana::Ok(b2) = analyse(&dics[0], &text, mode) {
                            let w2 = analyse_after(&dics[stack.len()], &warm, &text, mode);
                            let tag = if mode == Mode::A { "a" } else { "b" };
                            payload.push_str(&format!(" u{}={}", tag, base.units[if mode == Mode::A { 0 } else { 1 }].join("/")));
                            answer.push_str(&format!(" {}={}", tag.to_uppercase(), match &w2 {
                                Ana::Ok(o) => format!("ok {}", wire_path(&o.nodes)),
                                Ana::Err(_) => "err".to_string(),
                                Ana::Panic(_) => "PANIC".to_string(),
                                Ana::Hang => "HANG".to_string(),
                            }));
                            ab.push((mode, b2, w2));
                        }
                    }
                }
                run.case(idx, "stack", &payload, &answer, changed);
                let mut stats = vec![];
                let verdict = oracle(&base, &with, &stack, &pos_ids, &mut stats, true);
                for s in stats { run.bump(&s); }
                if with.cat != base.cat {
                    run.fail(idx, "c14:input-differs", &format!("text {:?}{}: the class masks of the modified text differ between the two configurations", text, hist));
                }
                if let Some((key, what)) = verdict {
                    run.bump(&format!("oracle:{}", key));
                    run.fail(idx, &key, &format!("text {:?} [{}] stack {:?}{}: {}", text, textkey, stack, hist, what));
                }
                // idempotence: a plugin that is configured twice in a row with the same settings changes nothing the second time
                for k in 1..stack.len() {
                    if stack[k] == stack[k - 1] {
                        let first = &inter[k - 1].nodes;
                        let second = if k + 1 == stack.len() { &with.nodes } else { &inter[k].nodes };
                        run.bump("idempotence-checked");
                        if first != second {
                            let key = format!("c14:not-idempotent:{}", if matches!(stack[k], Plug::Numeric { .. }) { "numeric" } else { "katakana" });
                            run.bump(&format!("oracle:{}", key));
                            run.fail(idx, &key, &format!("text {:?} [{}] stack {:?}{}: the second run of {:?} on its own output changes the path: {} tokens -> {} tokens",
                                text, textkey, stack, hist, stack[k], first.len(), second.len()));
                        }
                    }
                }
                for (mode, b2, w2) in &ab {
                    let mode = *mode;
                    let w2 = match w2 {
                        Ana::Ok(o) => o,
                        _ => {
                            let key = format!("c14:ab-mode-failed@{:?}", mode);
                            run.bump(&format!("oracle:{}", key));
                            run.fail(idx, &key, &format!("mode {:?} text {:?} [{}] stack {:?}{}: the analysis succeeds in mode C and without the plugins, and fails in this mode with them", mode, text, textkey, stack, hist));
                            continue;
                        }
                    };
                    let mut st2 = vec![];
                    if let Some((key, what)) = oracle(b2, w2, &stack, &pos_ids, &mut st2, false) {
                        let key = format!("{}@{:?}", key, mode);
                        run.bump(&format!("oracle:{}", key));
                        run.fail(idx, &key, &format!("mode {:?} text {:?} [{}] stack {:?}{}: {}", mode, text, textkey, stack, hist, what));
                    }
                    // a token of the split result is either a token the plugins made or kept (it is in the mode-C
                    // result of the same configuration, same range, same dictionary-side surface and part of speech) or
                    // a unit of an un-merged word (it is in the split result WITHOUT the plugins): a merged token is a
                    // new word without units, the split never cuts it and never invents tokens
                    // (Lean: C14.split_of_merged)
                    for t in &w2.nodes {
                        let in_c = with.nodes.iter().any(|c| c.b == t.b && c.e == t.e && c.surface == t.surface && c.pos == t.pos);
                        let in_plain = b2.nodes.iter().any(|c| c.b == t.b && c.e == t.e && c.surface == t.surface && c.pos == t.pos);
                        if !in_c && !in_plain {
                            let key = format!("c14:split-of-merged@{:?}", mode);
                            run.bump(&format!("oracle:{}", key));
                            run.fail(idx, &key, &format!("mode {:?} text {:?} [{}] stack {:?}{}: token {}..{} (dictionary-side surface {:?}, POS {}) is neither a token of the mode-C result with the plugins nor a token of the mode-{:?} result without them: a merged token was split or a token was invented",
                                mode, text, textkey, stack, hist, t.b, t.e, t.surface, t.pos, mode));
                            break;
                        }
                    }
                    run.bump("ab-mode-checked");
                }
            }
            Ana::Err(e) => {
                run.bump("outcome:error");
                run.case(idx, "stack", &payload, "err", true);
                run.fail(idx, "c14:error", &format!("text {:?} [{}] stack {:?}{}: analysis succeeds without the plugins and fails with them: {}", text, textkey, stack, hist, e));
            }
            Ana::Panic(p) => {
                run.bump("outcome:panic");
                run.case(idx, "stack", &payload, "PANIC", true);
                run.fail(idx, "c14:panic", &format!("text {:?} [{}] stack {:?}{}: analysis succeeds without the plugins and panics with them: {}", text, textkey, stack, hist, p));
            }
            Ana::Hang => {
                hangs += 1;
                run.bump("outcome:hang");
                run.case(idx, "stack", &payload, "HANG", true);
                // cause: a node that is numeric by character class although its normalised form is / contains a separator
                let row = world.rows.iter().rev().find(|r| r.surface.chars().all(|c| c.is_ascii_digit()) && (r.norm.contains(',') || r.norm.contains('.')))
                    .map(|r| format!("lexicon row {:?} with normalised form {:?}", r.surface, r.norm));
                let cls = if world.chardef_extra.contains("0x002C NUMERIC") { Some("char.def line `0x002C NUMERIC`".to_string()) } else { None };
                let cause = row.or(cls);
                run.fail(idx, &format!("c14:hang:{}", if cause.is_some() { "class-numeric-separator" } else { "other" }),
                    &format!("text {:?} [{}] stack {:?}: JoinNumericPlugin::rewrite_gen does not terminate within {} ms ({})", text, textkey, stack, HANG_MS, cause.unwrap_or_default()));
            }
        }
        // op `plug`: the same stack called plugin by plugin on the analyser's path as it is (directed cases and half of the
        // generated ones) or on a perturbation of it that does not tile the text
        let kind = if idx < N_DIRECTED { idx % PERTURBATIONS.len() } else if idx % 2 == 0 { 0 } else { 1 + (idx / 2) % (PERTURBATIONS.len() - 1) };
        if hangs < MAX_HANGS {
            plug_case(run, idx, kind, &base, &dics, &stack, &pos_ids, &text, &textkey);
        }
    }
}
