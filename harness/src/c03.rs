//! C03: tokenization is total — never panics, succeeds within the documented limits.
//!
//! Oracle (heart of the check): every whole-tokenizer case runs on a worker thread (a hang is an
//! observation) with `catch` around reset / do_tokenize / collect_results and around EVERY accessor of
//! every morpheme (and of every A/B sub-morpheme); any panic or hang is a violation; with a fallback OOV
//! provider last, an input of <= 49149 bytes whose normalised form is <= 65535 bytes must succeed and
//! must not be truncated; beyond the limits the outcome must be the InputTooLong error.
//! About half of the whole-tokenizer analyses run on RECYCLED objects (`Hist`/`gen_hist`: one tokenizer + one result list that
//! analysed 1-4 other texts before); the expected answers do not depend on the history.
//! Correspondence (the parts of the analysis path modelled in `Model/Total.lean`, and their composition in `Model/TotalIO.lean`):
//!   op `pipe`   the WHOLE pipeline on a small world: the model executes `Total.tokenize` on the configuration built from the line
//!               (C13 + C07 tokens, matrix, split units, mode); outcome class, morpheme ranges, accessors, `get_internal_cost`;
//!   op `cost`   the real `Lattice` (reset/insert/connect_eos) driven with generated candidates and i16-extreme
//!               costs: stored i32 totals, back-pointers, EOS, overflow outcome;
//!   op `limits` `InputBuffer::start_build` / `with_editor` (commit) at the 49149 / 65535 byte limits; the token
//!               `commit=running|final` tells the model which length guard `resolve_edits`/`commit` has (behavioural
//!               probe `commit_variant`), so the same framework commit ties the tree before and after the repair;
//!   op `access` begin/end/begin_c/end_c/surface of every morpheme and of its A and B splits, recomputed by the
//!               model from the dumped offset tables and the split units' head-word lengths; the token
//!               `split=cur|d6fix` tells the model which `NodeSplitIterator::next` the linked tree has
//!               (probe of analysis/node.rs for the D6 clamp), so the same framework commit ties both trees.
use crate::common::*;
use crate::dict::*;
use crate::world::*;
use std::sync::Arc;
use sudachi::analysis::lattice::Lattice;
use sudachi::analysis::stateful_tokenizer::StatefulTokenizer;
use sudachi::analysis::stateless_tokenizer::DictionaryAccess;
use sudachi::analysis::Mode;
use sudachi::analysis::Node;
use sudachi::dic::dictionary::JapaneseDictionary;
use sudachi::dic::word_id::WordId;
use sudachi::input_text::InputBuffer;
use sudachi::prelude::*;
use unicode_normalization::UnicodeNormalization;

type D = Arc<JapaneseDictionary>;

const MAX_LENGTH: usize = 49149;
const REALLY_MAX: usize = 65535;
const CASES_PER_WORLD: usize = 24;
const N_DIRECTED: usize = 34;
/// directed `limits` cases that follow the directed whole-tokenizer cases
const N_DIRECTED_LIMITS: usize = 8;
/// directed case that does not terminate on the unchanged tree: run last
const HANG_CASE: usize = 29;
/// one more directed whole-tokenizer case after the directed `limits` cases (keeps the indices of the older ones)
const EXTRA_DIRECTED: usize = N_DIRECTED + N_DIRECTED_LIMITS;

// ------------------------------------------------------------------------------------------------
// observation of one whole analysis

#[derive(Clone, Debug, Default)]
struct Probe {
    /// `begin:end:begin_c:end_c:sb:se` or `P`
    acc: String,
    surface: String,
    /// (accessor, panic message)
    panics: Vec<(String, String)>,
}

#[derive(Clone, Debug, Default)]
struct MorphObs {
    p: Probe,
    node: (usize, usize, usize, usize),
    units_a: Option<Vec<usize>>,
    units_b: Option<Vec<usize>>,
    /// observed split: `-` (no split), `P`, or `+`-joined probes
    split_a: String,
    split_b: String,
    sub_panics: Vec<(String, String)>,
    /// `Some(part_of_speech_id())` of a morpheme that says `is_oov()`
    oov_pos: Option<u16>,
}

#[derive(Clone, Debug, Default)]
struct Whole {
    /// `ok`, `err:<Kind>`, `PANIC`
    outcome: String,
    stage: String,
    msg: String,
    orig: String,
    cur: String,
    m2o: Vec<usize>,
    morphs: Vec<MorphObs>,
    /// `MorphemeList::get_internal_cost()` of the result list, `P` when it panics
    icost: String,
    /// accessors of the result LIST that panicked: (accessor, message)
    list_panics: Vec<(String, String)>,
    /// longest row of the lattice of this text (`ends_full[e].len()` over the rows of the text), read before `collect_results`
    maxrow: usize,
}

enum Ana {
    Done(Whole),
    Hang,
}

fn probe(m: &Morpheme<D>, base: usize) -> Probe {
    let mut p = Probe::default();
    let mut fields: Vec<Option<usize>> = vec![];
    macro_rules! call {
        ($name:expr, $e:expr) => {
            match catch(|| $e) {
                Ok(v) => Some(v),
                Err(msg) => { p.panics.push(($name.to_string(), msg)); None }
            }
        };
    }
    fields.push(call!("begin", m.begin()));
    fields.push(call!("end", m.end()));
    fields.push(call!("begin_c", m.begin_c()));
    fields.push(call!("end_c", m.end_c()));
    let s = call!("surface", { let s = m.surface(); ((s.as_ptr() as usize).wrapping_sub(base), s.to_string()) });
    match &s {
        Some((off, txt)) => { fields.push(Some(*off)); fields.push(Some(off + txt.len())); p.surface = txt.clone(); }
        None => { fields.push(None); fields.push(None); }
    }
    let _ = call!("part_of_speech", m.part_of_speech().len());
    let _ = call!("part_of_speech_id", m.part_of_speech_id());
    let _ = call!("normalized_form", m.normalized_form().len());
    let _ = call!("dictionary_form", m.dictionary_form().len());
    let _ = call!("reading_form", m.reading_form().len());
    let _ = call!("word_id", m.word_id().as_raw());
    let _ = call!("dictionary_id", m.dictionary_id());
    let _ = call!("synonym_group_ids", m.synonym_group_ids().len());
    let _ = call!("total_cost", m.total_cost());
    let _ = call!("is_oov", m.is_oov());
    let _ = call!("get_word_info", { let wi = m.get_word_info(); wi.surface().len() + wi.head_word_length() + wi.a_unit_split().len() + wi.b_unit_split().len() + wi.word_structure().len() });
    p.acc = if fields.iter().all(|f| f.is_some()) { join(fields.iter().map(|f| f.unwrap()), ":") } else { "P".to_string() };
    p
}

fn units_of(dic: &D, ids: &[WordId]) -> Option<Vec<usize>> {
    let mut out = vec![];
    for w in ids {
        match catch(|| dic.lexicon().get_word_info(*w).map(|i| i.head_word_length())) {
            Ok(Ok(h)) => out.push(h),
            _ => return None,
        }
    }
    Some(out)
}

fn split_obs(dic: &D, m: &Morpheme<D>, mode: Mode, tag: &str, sub_panics: &mut Vec<(String, String)>) -> String {
    let mut out = MorphemeList::empty(dic.clone());
    match catch(|| m.split_into(mode, &mut out)) {
        Err(msg) => { sub_panics.push((format!("split_into:{}", tag), msg)); "P".to_string() }
        Ok(Err(e)) => { sub_panics.push((format!("split_into:{}:err", tag), err_class(&e))); "E".to_string() }
        Ok(Ok(false)) => "-".to_string(),
        Ok(Ok(true)) => {
            let base = out.surface().as_ptr() as usize;
            let mut parts = vec![];
            for j in 0..out.len() {
                let sm = out.get(j);
                let pr = probe(&sm, base);
                for (a, msg) in &pr.panics { sub_panics.push((format!("{}-unit{}:{}", tag, j, a), msg.clone())); }
                parts.push(pr.acc);
            }
            parts.join("+")
        }
    }
}

/// what the tokenizer and the result list did BEFORE the text of the case: a long-lived analyser is reset and refilled,
/// `collect_results` swaps the input buffer of the tokenizer with the one of the list, so a text meets the buffer of the
/// call before last, the lattice/path/node vectors of the last call.  Totality does not depend on any of it.
#[derive(Clone, Debug, Default)]
struct Hist {
    /// earlier texts analysed on the same `StatefulTokenizer` + `MorphemeList` (empty = new objects)
    warm: Vec<String>,
    /// the public debug flag (the CLI's `-d`): lattice and paths are dumped while analysing
    debug: bool,
    /// split mode of every earlier analysis (`set_mode` between the calls, as a long-lived analyser is used): 0 = C, 1 = A, 2 = B
    modes: Vec<usize>,
}

impl Hist {
    fn describe(&self) -> String {
        if self.warm.is_empty() && !self.debug { return "new tokenizer".into(); }
        format!("{}recycled tokenizer+list after {:?}", if self.debug { "debug " } else { "" },
            self.warm.iter().map(|t| format!("{}…({} bytes)", t.chars().take(12).collect::<String>(), t.len())).collect::<Vec<_>>())
    }
}

/// 1-4 earlier texts for a recycled analyser: longer AND shorter than the text of the case, empty ones, rejected ones
/// (over 49149 bytes; with the default plugin also one whose normalised form exceeds 65535 bytes), texts of the world
fn gen_hist(rng: &mut Rng, text: &str, world: Option<&World>, default_plugin: bool) -> Hist {
    let n = text.chars().count();
    let debug = n > 0 && n <= 24 && rng.chance(1, 3);
    let pool: &[char] = &['a', 'あ', '漢', '1', 'ア', 'Ａ', 'ｱ', '。', ' ', 'ー', '\u{301}', '東', '京', '都', 'い'];
    let k = rng.range(1, 4);
    let mut warm: Vec<String> = vec![];
    let mut have_longer = false;
    for j in 0..k {
        let t = match rng.below(16) {
            0 | 1 => String::new(),
            2 if !debug => rep("a", 49150 + rng.below(3)),                                  // rejected by start_build
            3 if !debug && default_plugin => rep("\u{FDFA}", 1986 + rng.below(4)),          // rejected by commit (normalised > 65535)
            4 | 5 => text.chars().take(rng.below(n + 1)).collect(),                         // a prefix: shorter
            6 | 7 => { have_longer = true; format!("{}{}あいう", text.chars().take(200).collect::<String>(), text.chars().take(200).collect::<String>()) } // longer
            8 | 9 if world.is_some() => gen_text(rng, world.unwrap(), 30),
            10 => { let c = *rng.pick(pool); rep(&c.to_string(), rng.range(1, if debug { 40 } else { 300 })) }
            _ => { let m = rng.range(1, if debug { 30 } else { 80 }); (0..m).map(|_| *rng.pick(pool)).collect() }
        };
        warm.push(t);
        let _ = j;
    }
    // the stale rows/buffers matter when an earlier text was LONGER: make sure one is (in the last or the one before last call)
    if !have_longer && rng.chance(2, 3) {
        let longer = format!("{}{}あいう", text.chars().take(200).collect::<String>(), text.chars().rev().take(100).collect::<String>());
        let at = if warm.len() >= 2 && rng.chance(1, 2) { warm.len() - 2 } else { warm.len() - 1 };
        warm[at] = longer;
    }
    let modes = (0..warm.len()).map(|_| rng.below(3)).collect();
    Hist { warm, debug, modes }
}

fn whole_here(dic: D, text: &str, mode: Mode, hist: &Hist) -> Whole {
    let mut w = Whole { orig: text.to_string(), ..Default::default() };
    let mut tok = if hist.debug { StatefulTokenizer::create(dic.clone(), true, mode) } else { StatefulTokenizer::new(dic.clone(), mode) };
    let mut ml = MorphemeList::empty(dic.clone());
    for (k, wt) in hist.warm.iter().enumerate() {
        let r = catch(|| {
            tok.set_mode(mode_of(hist.modes.get(k).copied().unwrap_or(0)));
            tok.reset().push_str(wt);
            if tok.do_tokenize().is_ok() { let _ = ml.collect_results(&mut tok); }
        });
        if let Err(msg) = r {
            // a panic while analysing an earlier text is a violation on that text with the history before it
            w.outcome = "PANIC".into(); w.stage = format!("warmup{}", k); w.msg = msg; return w;
        }
    }
    if !hist.warm.is_empty() { tok.set_mode(mode); }
    if let Err(msg) = catch(|| tok.reset().push_str(text)) {
        w.outcome = "PANIC".into(); w.stage = "reset".into(); w.msg = msg; return w;
    }
    match catch(|| tok.do_tokenize()) {
        Err(msg) => { w.outcome = "PANIC".into(); w.stage = "tokenize".into(); w.msg = msg; return w; }
        Ok(Err(e)) => { w.outcome = format!("err:{}", err_class(&e)); w.stage = "tokenize".into(); return w; }
        Ok(Ok(())) => {}
    }
    let t = tok.verif_input().verif_tables();
    w.cur = t.modified.clone();
    w.m2o = t.m2o.clone();
    {
        let lat = tok.verif_lattice();
        let size = lat.verif_size();
        w.maxrow = lat.verif_row_lens().iter().take(size).map(|x| x.1).max().unwrap_or(0);
    }
    match catch(|| ml.collect_results(&mut tok)) {
        Err(msg) => { w.outcome = "PANIC".into(); w.stage = "collect".into(); w.msg = msg; return w; }
        Ok(Err(e)) => { w.outcome = format!("err:{}", err_class(&e)); w.stage = "collect".into(); return w; }
        Ok(Ok(())) => {}
    }
    w.outcome = "ok".into();
    w.icost = match catch(|| ml.get_internal_cost()) {
        Ok(v) => v.to_string(),
        Err(msg) => { w.list_panics.push(("get_internal_cost".to_string(), msg)); "P".to_string() }
    };
    let base = ml.surface().as_ptr() as usize;
    for i in 0..ml.len() {
        let m = ml.get(i);
        let mut mo = MorphObs::default();
        mo.p = probe(&m, base);
        mo.node = catch(|| m.verif_node_range()).unwrap_or((0, 0, 0, 0));
        mo.oov_pos = catch(|| if m.is_oov() { Some(m.part_of_speech_id()) } else { None }).unwrap_or(None);
        if let Ok((a, b)) = catch(|| { let wi = m.get_word_info(); (wi.a_unit_split().to_vec(), wi.b_unit_split().to_vec()) }) {
            mo.units_a = units_of(&dic, &a);
            mo.units_b = units_of(&dic, &b);
        }
        mo.split_a = split_obs(&dic, &m, Mode::A, "A", &mut mo.sub_panics);
        mo.split_b = split_obs(&dic, &m, Mode::B, "B", &mut mo.sub_panics);
        w.morphs.push(mo);
    }
    w
}

fn whole(dic: &D, text: &str, mode: Mode, timeout_ms: u64, hist: &Hist) -> Ana {
    let (tx, rx) = std::sync::mpsc::channel();
    let d = dic.clone();
    let t = text.to_string();
    let h = hist.clone();
    std::thread::spawn(move || {
        let r = catch(|| whole_here(d, &t, mode, &h));
        let _ = tx.send(r);
    });
    match rx.recv_timeout(std::time::Duration::from_millis(timeout_ms)) {
        Err(_) => Ana::Hang,
        Ok(Err(p)) => Ana::Done(Whole { outcome: "PANIC".into(), stage: "harness".into(), msg: p, orig: text.to_string(), ..Default::default() }),
        Ok(Ok(w)) => Ana::Done(w),
    }
}

/// stable class of a panic message (site, not values)
fn panic_class(msg: &str) -> String {
    let m = msg;
    if m.contains("attempt to add with overflow") { "add-overflow".into() }
    else if m.contains("attempt to subtract with overflow") { "sub-overflow".into() }
    else if m.contains("attempt to multiply with overflow") { "mul-overflow".into() }
    else if m.contains("index out of bounds") { "index-oob".into() }
    else if m.contains("raw > 0") { "created-single-zero".into() }
    else if m.contains("off char boundary") { "off-char-boundary".into() }
    else if m.contains("is not a char boundary") || m.contains("byte index") || m.contains("when slicing") { "str-slice".into() }
    else if m.contains("out of range") || m.contains("range end index") || m.contains("range start index") || m.contains("slice index") { "slice-range".into() }
    else if m.contains("unwrap") { "unwrap".into() }
    else if m.contains("assertion") { "assertion".into() }
    else { m.chars().filter(|c| c.is_ascii_alphanumeric()).take(24).collect() }
}

// ------------------------------------------------------------------------------------------------
// expected normalised length of "safe" texts (characters whose normal form is context free and
// known: no combining marks, no rewrite.def keys) — used only by the limit clauses of the oracle

fn safe_norm_len(c: char, default_plugin: bool) -> Option<usize> {
    if !default_plugin { return Some(c.len_utf8()); }
    match c {
        'a' | '1' | 'あ' | '漢' | 'ア' => Some(c.len_utf8()),
        'Ａ' | 'A' => Some(1),
        '\u{FDFA}' | '\u{337F}' | 'ｱ' => Some(c.to_lowercase().collect::<String>().nfkc().collect::<String>().len()),
        _ => None,
    }
}

/// (final normalised length, maximum of the running length `resolve_edits` computes) when the text is safe
fn expected_norm(text: &str, default_plugin: bool) -> Option<(usize, usize)> {
    let mut cur = text.len() as i64;
    let mut maxrun = cur;
    for c in text.chars() {
        let n = safe_norm_len(c, default_plugin)? as i64;
        if n != c.len_utf8() as i64 {
            cur += n - c.len_utf8() as i64;
            if cur > maxrun { maxrun = cur; }
        }
    }
    Some((cur as usize, maxrun as usize))
}

// ------------------------------------------------------------------------------------------------
// dictionaries of the directed cases

fn dict_from(tag: &str, rows: &[Row], matrix: &str, input: &[String], oov: &[String], pr: &[String]) -> Result<(Workdir, D), String> {
    let wd = Workdir::new(tag);
    let csv = csv_of(rows, &default_pos());
    let sys = build_system(csv.as_bytes(), matrix.as_bytes())?;
    let cfg = config_json_cd(&wd, "char_full.def", input, oov, pr, &[]);
    let dic = load(&cfg, sys, vec![])?;
    Ok((wd, Arc::new(dic)))
}

const DEFAULT_PLUGIN: &str = r#"{"class":"com.worksap.nlp.sudachi.DefaultInputTextPlugin","rewriteDef":"rewrite.def"}"#;

/// one-character words of cost 32767 over a 1x1 matrix with connection cost 32767 (D7)
fn d7_dict(tag: &str) -> Result<(Workdir, D), String> {
    let rows = vec![Row::simple("1", 0, 0, 32767, NUMERAL), Row::simple("2", 0, 0, -32766, NUMERAL), Row::simple("あ", 0, 0, 32767, NOUN)];
    dict_from(tag, &rows, "1 1\n0 0 32767\n", &[], &[simple_oov_json(0, 0, 32767)], &[])
}

fn plain_dict(tag: &str, default_plugin: bool) -> Result<(Workdir, D), String> {
    let rows = vec![Row::simple("あ", 0, 0, 100, NOUN), Row::simple("a", 0, 0, 200, NOUN), Row::simple("aa", 0, 0, 250, NOUN)];
    let input = if default_plugin { vec![DEFAULT_PLUGIN.to_string()] } else { vec![] };
    dict_from(tag, &rows, "1 1\n0 0 10\n", &input, &[simple_oov_json(0, 0, 3000)], &[])
}

struct Directed {
    name: &'static str,
    dic: Result<(Workdir, D), String>,
    text: String,
    mode: Mode,
    fallback: bool,
    default_plugin: bool,
}

fn rep(s: &str, n: usize) -> String { s.repeat(n) }

fn directed(idx: usize) -> Option<Directed> {
    let tag = format!("C03-d{}", idx);
    let mk = |name, dic, text: String, mode, default_plugin| Some(Directed { name, dic, text, mode, fallback: true, default_plugin });
    match idx {
        // D7 and its boundary
        2 => mk("d7-chain-32768", d7_dict(&tag), rep("1", 32768), Mode::C, false),
        3 => mk("d7-chain-32769", d7_dict(&tag), rep("1", 32769), Mode::C, false),
        4 => mk("d7-chain-40000", d7_dict(&tag), rep("1", 40000), Mode::C, false),
        // total cost exactly i32::MAX = the "not connected" sentinel
        5 => mk("d7-sentinel", d7_dict(&tag), format!("2{}", rep("1", 32769)), Mode::C, false),
        // D6: split unit longer than its parent
        6 | 7 | 8 => {
            let mut rows = vec![Row::simple("東京都", 0, 0, 100, NOUN), Row::simple("京", 0, 0, 100, NOUN), Row::simple("東", 0, 0, 100, NOUN)];
            rows[2].mode = 'C';
            rows[2].split_a = "0/1".into();
            let dic = dict_from(&tag, &rows, "1 1\n0 0 10\n", &[], &[simple_oov_json(0, 0, 3000)], &[]);
            match idx {
                6 => mk("d6-split-A", dic, "東".into(), Mode::A, false),
                7 => mk("d6-split-C", dic, "東".into(), Mode::C, false),
                _ => mk("d6-split-A-inside", dic, "東あいうえ".into(), Mode::A, false),
            }
        }
        // C13 observation: a regex that matches the empty string
        9 => {
            let rows = vec![Row::simple("あ", 0, 0, 100, NOUN)];
            let re = format!(r#"{{"class":"com.worksap.nlp.sudachi.RegexOovProvider","regex":"[a]{{0,}}","leftId":0,"rightId":0,"cost":100,"oovPOS":{},"maxLength":8,"boundaries":"relaxed"}}"#, OOV_POS_JSON);
            mk("regex-empty-match", dict_from(&tag, &rows, "1 1\n0 0 10\n", &[], &[re, simple_oov_json(0, 0, 3000)], &[]), "b".into(), Mode::C, false)
        }
        // the running length of one commit exceeds 65535 although the normalised text is shorter
        10 => mk("transient-length", plain_dict(&tag, true), format!("{}{}", rep("\u{FDFA}", 1900), rep("Ａ", 1400)), Mode::C, true),
        // the 49149-byte limit
        11 => mk("len-49148", plain_dict(&tag, true), rep("a", 49148), Mode::C, true),
        12 => mk("len-49149", plain_dict(&tag, true), rep("a", 49149), Mode::C, true),
        13 => mk("len-49150", plain_dict(&tag, true), rep("a", 49150), Mode::C, true),
        14 => mk("len-49149-kana", plain_dict(&tag, false), rep("あ", 16383), Mode::A, false),
        15 => mk("len-49150-kana", plain_dict(&tag, false), format!("{}a", rep("あ", 16383)), Mode::C, false),
        16 => mk("len-49152-kana", plain_dict(&tag, true), rep("あ", 16384), Mode::C, true),
        // the 65535-byte limit of the normalised text (NFKC x18 = 33 bytes, x4 = 12 bytes)
        17 => mk("nfkc-fdfa-65505", plain_dict(&tag, true), rep("\u{FDFA}", 1985), Mode::C, true),
        18 => mk("nfkc-fdfa-65535", plain_dict(&tag, true), format!("{}{}", rep("\u{FDFA}", 1985), rep("a", 30)), Mode::C, true),
        19 => mk("nfkc-fdfa-65536", plain_dict(&tag, true), format!("{}{}", rep("a", 31), rep("\u{FDFA}", 1985)), Mode::C, true),
        20 => mk("nfkc-fdfa-65538", plain_dict(&tag, true), rep("\u{FDFA}", 1986), Mode::C, true),
        21 => mk("nfkc-337f-65532", plain_dict(&tag, true), rep("\u{337F}", 5461), Mode::B, true),
        22 => mk("nfkc-337f-65535", plain_dict(&tag, true), format!("aaa{}", rep("\u{337F}", 5461)), Mode::C, true),
        23 => mk("nfkc-337f-65536", plain_dict(&tag, true), format!("{}aaaa", rep("\u{337F}", 5461)), Mode::C, true),
        24 => mk("nfkc-337f-65544", plain_dict(&tag, true), rep("\u{337F}", 5462), Mode::C, true),
        25 => mk("empty", plain_dict(&tag, true), String::new(), Mode::C, true),
        26 => mk("nul-controls", plain_dict(&tag, true), "\u{0}\u{1}\u{7f}\u{85}\u{378}\u{10FFFF}\u{E000}\u{FFFE}\u{200d}\u{301}\u{301}e\u{301}".into(), Mode::A, true),
        27 => mk("zwj-family", plain_dict(&tag, true), "👨\u{200d}👩\u{200d}👧\u{fe0f}👍🏻\u{200d}".into(), Mode::B, true),
        28 => mk("class-run-70", plain_dict(&tag, false), rep("a", 70) + &rep("ア", 66) + &rep("1", 64), Mode::C, false),
        // C14-F2: a numeral-class word whose normalised form is a separator: JoinNumericPlugin never returns
        29 => {
            let mut rows = vec![Row::simple("あ", 0, 0, 100, NOUN), Row::simple("7", 0, 0, 100, NUMERAL)];
            rows[1].norm = ",".into();
            let pr = vec![r#"{"class":"com.worksap.nlp.sudachi.JoinNumericPlugin","enableNormalize":true}"#.to_string()];
            mk("c14f2-numeric-separator", dict_from(&tag, &rows, "1 1\n0 0 10\n", &[], &[simple_oov_json(0, 0, 3000)], &pr), "7".into(), Mode::C, false)
        }
        // a NUL byte in the text is transparent for the double-array lookup: the word is matched one byte too long
        30 | 31 => {
            let mut rows = vec![Row::simple("あ", 0, 0, 100, NOUN), Row::simple("い", 0, 0, 100, NOUN), Row::simple("あい", 0, 0, 50, NOUN)];
            rows[2].mode = 'C';
            rows[2].split_a = "0/1".into();
            let dic = dict_from(&tag, &rows, "1 1\n0 0 10\n", &[], &[simple_oov_json(0, 0, 30000)], &[]);
            if idx == 30 { mk("nul-before-word-A", dic, "\u{0}あい".into(), Mode::A, false) } else { mk("nul-before-word-C", dic, "\u{0}あい".into(), Mode::C, false) }
        }
        // D6, second shape (regression cases of the repair): a unit whose key length ends INSIDE a character of the
        // parent (`あ京` with A-split `a/京`: 1 byte into `あ`); the repaired iterator snaps the boundary back to the
        // start of the character (empty first unit), without the snap surface() trips 'off char boundary'
        32 | 33 => {
            let mut rows = vec![Row::simple("a", 0, 0, 100, NOUN), Row::simple("京", 0, 0, 100, NOUN), Row::simple("あ京", 0, 0, 50, NOUN)];
            rows[2].mode = 'C';
            rows[2].split_a = "0/1".into();
            let dic = dict_from(&tag, &rows, "1 1\n0 0 10\n", &[], &[simple_oov_json(0, 0, 30000)], &[]);
            if idx == 32 { mk("d6-snap-A", dic, "あ京".into(), Mode::A, false) } else { mk("d6-snap-C", dic, "xあ京".into(), Mode::C, false) }
        }
        _ => None,
    }
}

// ------------------------------------------------------------------------------------------------
// texts

const SPECIAL: &[&str] = &[
    "\u{0}", "\u{1}", "\u{7}", "\u{1b}", "\u{7f}", "\u{85}", "\u{a0}", "\u{ad}", "\u{378}", "\u{d7ff}", "\u{e000}", "\u{fffe}", "\u{ffff}",
    "\u{10000}", "\u{1f600}", "\u{e0001}", "\u{10ffff}", "\u{301}", "\u{301}\u{301}\u{327}", "e\u{301}", "\u{3099}", "か\u{3099}", "\u{200d}", "\u{200b}", "\u{200e}", "\u{202e}",
    "\u{fe0f}", "👨\u{200d}👩\u{200d}👧", "👍🏻", "🏻", "\u{FDFA}", "\u{337F}", "İ", "ǆ", "ǅ", "ß", "ﬃ", "㌔", "㍿", "ｶﾞ", "ﾞ", "Ⅻ", "①", "½", "\u{2126}", "\r\n", "\t", " ", "　",
    "ー", "〜", "～", "(", ")", "（", "）", "《", "》", ",", ".", "、", "。", "1", "一", "千", "万", "億", "兆", "０", "Ａ", "z",
];

fn adversarial_text(rng: &mut Rng, w: &World) -> (String, &'static str) {
    match rng.below(12) {
        0 | 1 => (gen_text(rng, w, 30), "world-text"),
        2 => {
            let c = *rng.pick(&['a', '1', 'ア', 'あ', '漢', 'Ａ', 'ｱ', 'Ω', 'я', '一', ' ', 'ー', '\u{301}', '\u{200d}', '\u{0}']);
            (rep(&c.to_string(), rng.range(60, 70)), "class-run-60-70")
        }
        3 => {
            let c = *rng.pick(TEXT_CHARS);
            (rep(&c.to_string(), rng.range(1, 200)), "one-char-repeated")
        }
        4 | 5 | 6 => {
            let n = rng.range(1, 24);
            ((0..n).map(|_| *rng.pick(SPECIAL)).collect::<Vec<_>>().join(""), "specials")
        }
        7 | 8 => {
            let n = rng.range(1, 16);
            let mut s = String::new();
            for _ in 0..n {
                if rng.chance(1, 2) { s.push_str(&rng.pick(&w.lex.rows).surface); } else { s.push_str(*rng.pick(SPECIAL)); }
            }
            (s, "words+specials")
        }
        9 => {
            // random scalar values from the whole range
            let n = rng.range(1, 12);
            let mut s = String::new();
            while s.chars().count() < n {
                let v = match rng.below(4) { 0 => rng.below(0x300), 1 => rng.below(0x10000), 2 => 0x10000 + rng.below(0x20000), _ => rng.below(0x110000) } as u32;
                if let Some(c) = char::from_u32(v) { s.push(c); }
            }
            (s, "random-scalars")
        }
        10 => {
            let a = rep(&rng.pick(&['a', 'ア', '1', '漢']).to_string(), rng.range(60, 70));
            let b = rep(&rng.pick(&['b', 'イ', '2', '字', '\u{301}']).to_string(), rng.range(1, 70));
            (a + &b, "two-runs")
        }
        _ => (rep(*rng.pick(SPECIAL), rng.range(2, 40)), "special-repeated"),
    }
}

/// long texts over "safe" characters around the two limits
fn long_text(rng: &mut Rng, default_plugin: bool) -> (String, &'static str) {
    match rng.below(6) {
        0 => (rep("a", *rng.pick(&[49148, 49149, 49150, 49151])), "long-ascii"),
        1 => {
            let k = *rng.pick(&[16382, 16383, 16384]);
            let tail = rng.below(3);
            (rep("あ", k) + &rep("a", tail), "long-kana")
        }
        2 if default_plugin => {
            let k = rng.range(1983, 1987);
            let pad = rng.below(40);
            if rng.chance(1, 2) { (rep("a", pad) + &rep("\u{FDFA}", k), "long-nfkc18") } else { (rep("\u{FDFA}", k) + &rep("a", pad), "long-nfkc18") }
        }
        3 if default_plugin => {
            let k = rng.range(5459, 5463);
            let pad = rng.below(14);
            (rep("\u{337F}", k) + &rep("a", pad), "long-nfkc4")
        }
        4 if default_plugin => {
            // expansion first, contraction later: the running length of the commit may exceed the limit
            let k = rng.range(1850, 1950);
            let m = rng.range(600, 1600);
            (rep("\u{FDFA}", k) + &rep("Ａ", m), "long-expand-then-shrink")
        }
        _ => (rep("漢", 16383) + &rep("1", rng.below(3)), "long-kanji"),
    }
}

// ------------------------------------------------------------------------------------------------
// the oracle on one whole analysis

struct Expect<'a> {
    tag: &'a str,
    fallback: bool,
    default_plugin: bool,
    /// every character of the text is "safe" only matters for texts that can reach a limit
    limit_relevant: bool,
    /// the configured input-text plugins can delete text (prolonged-sound-mark plugin with an EMPTY replacement symbol,
    /// yomigana plugin): a text they delete completely has an empty normalised form and, rightly, no morphemes
    may_delete_all: bool,
}

fn judge(run: &mut Run, idx: usize, ex: &Expect, text: &str, mode: Mode, ana: &Ana, world: &str, hist: &Hist) {
    let ctx = |w: &str| format!("{} | case={} text={:?} ({} bytes) mode={:?} history={} world={}", w, ex.tag, text.chars().take(40).collect::<String>(), text.len(), mode, hist.describe(), world);
    run.bump(&format!("history:{}", if hist.warm.is_empty() { "new-objects".to_string() } else { format!("recycled-after-{}-texts{}", hist.warm.len(), if hist.debug { "-debug" } else { "" }) }));
    let w = match ana {
        Ana::Hang => {
            run.bump("outcome:HANG");
            run.fail(idx, &format!("c03:{}:hang", ex.tag), &ctx("the analysis does not return (worker thread timed out): totality clause 'returns either a morpheme list or an error value'"));
            return;
        }
        Ana::Done(w) => w,
    };
    run.bump(&format!("outcome:{}", if w.outcome.starts_with("err:Other") { "err:Other" } else { &w.outcome }));
    if w.outcome == "PANIC" {
        run.fail(idx, &format!("c03:{}:panic:{}@{}", ex.tag, panic_class(&w.msg), w.stage),
            &ctx(&format!("panic in {}: {:?} (clause 'never panics')", w.stage, w.msg.chars().take(160).collect::<String>())));
        return;
    }
    let too_long_orig = text.len() > MAX_LENGTH;
    let norm = if ex.limit_relevant { expected_norm(text, ex.default_plugin) } else { None };
    if too_long_orig {
        if w.outcome != "err:TooLong" {
            run.fail(idx, &format!("c03:{}:too-long-not-reported:{}", ex.tag, w.outcome), &ctx(&format!("input of {} bytes (> 49149) gave {} instead of the input-too-long error", text.len(), w.outcome)));
        }
        return;
    }
    if let Some((fin, maxrun)) = norm {
        if fin > REALLY_MAX {
            if w.outcome != "err:TooLong" {
                run.fail(idx, &format!("c03:{}:norm-too-long-not-reported:{}", ex.tag, w.outcome), &ctx(&format!("normalised form of {} bytes (> 65535) gave {} instead of the input-too-long error", fin, w.outcome)));
            }
            return;
        }
        if w.outcome == "err:TooLong" {
            let label = if maxrun > REALLY_MAX { "commit-transient-length" } else { "err-within-limits:TooLong" };
            run.fail(idx, &format!("c03:{}:{}", ex.tag, label), &ctx(&format!("input of {} bytes whose normalised form has {} bytes (<= 65535) is rejected as too long (running length inside the commit reaches {})", text.len(), fin, maxrun)));
            return;
        }
    }
    if w.outcome.starts_with("err:") {
        let within = norm.is_some() || !ex.limit_relevant;
        if ex.fallback && within {
            run.fail(idx, &format!("c03:{}:err-within-limits:{}", ex.tag, &w.outcome[4..].chars().take_while(|c| c.is_ascii_alphanumeric()).collect::<String>()),
                &ctx(&format!("{} although a fallback OOV provider is configured last and the input is within the limits", w.outcome)));
        }
        return;
    }
    // ok: accessors, truncation
    if let Some((a, msg)) = w.list_panics.first() {
        run.fail(idx, &format!("c03:{}:panic:{}@{}", ex.tag, panic_class(msg), a),
            &ctx(&format!("result list: accessor {} panics: {:?} (clauses 'never ... overflows', 'every accessor ... is safe to call')", a, msg.chars().take(160).collect::<String>())));
    }
    for (mi, m) in w.morphs.iter().enumerate() {
        if let Some((a, msg)) = m.p.panics.first().or(m.sub_panics.first()) {
            run.fail(idx, &format!("c03:{}:panic:{}@{}", ex.tag, panic_class(msg), a.chars().filter(|c| !c.is_ascii_digit()).collect::<String>()),
                &ctx(&format!("morpheme {}: accessor {} panics: {:?} (clause 'every accessor of every returned morpheme is safe to call')", mi, a, msg.chars().take(160).collect::<String>())));
            return;
        }
    }
    let concat: String = w.morphs.iter().map(|m| m.p.surface.clone()).collect();
    if w.morphs.is_empty() && w.cur.is_empty() && !text.is_empty() {
        run.bump("outcome:ok-normalised-text-empty(plugins deleted everything)");
        return;
    }
    if concat != text {
        run.fail(idx, &format!("c03:{}:truncated", ex.tag), &ctx(&format!("the surfaces of the {} morphemes cover {} of {} bytes (truncated or altered result)", w.morphs.len(), concat.len(), text.len())));
    }
}

/// which instance of the model's split iterator mirrors the tree: does `NodeSplitIterator::next` clamp the
/// unit end to the parent's end (commit `fix: keep split units inside their parent token`, D6)?  Textual probe
/// of the linked source, as C07/C09 do.  An unreadable source selects the unrepaired variant.
fn impl_d6_fixed() -> bool {
    static P: std::sync::OnceLock<bool> = std::sync::OnceLock::new();
    *P.get_or_init(|| {
        let p = format!("{}/src/analysis/node.rs", crate::c07::repo_sudachi_dir());
        std::fs::read_to_string(p).map(|s| s.contains(".min(self.byte_end as usize)")).unwrap_or(false)
    })
}

fn split_variant() -> &'static str { if impl_d6_fixed() { "d6fix" } else { "cur" } }

/// which length guard `resolve_edits`/`commit` of the linked tree has (model: `EditM.LenV`): behavioural probe, once.
/// One batch on 40000 x `a`: the first byte is replaced by 30000 bytes (running length 69999 > 65535), then the
/// other 39999 bytes are deleted (final length 30000, far below the limit).  The pinned code leaves the loop of
/// `resolve_edits` at the first edit and `with_editor` reports InputTooLong (`running`); the repaired code compares
/// the final length and commits (`final`).  A panic counts as `running`.
pub fn commit_variant() -> &'static str {
    static P: std::sync::OnceLock<&'static str> = std::sync::OnceLock::new();
    *P.get_or_init(|| {
        let r = catch(|| {
            let mut buf = InputBuffer::new();
            buf.reset().push_str(&rep("a", 40000));
            if buf.start_build().is_err() { return false; }
            let r = buf.with_editor(|_, mut ed| {
                ed.replace_own(0..1, rep("x", 30000));
                ed.replace_own(1..40000, String::new());
                Ok(ed)
            });
            r.is_ok() && buf.current().len() == 30000
        });
        if r == Ok(true) { "final" } else { "running" }
    })
}

/// which `RegexOovProvider::provide_oov` the linked tree has (model: `Oov.RegexCfg.skipEmpty`): behavioural probe,
/// once.  The provider with the pattern `[a]{0,}` is asked for candidates at offset 0 of the text `b` (empty
/// match): the pinned code reaches `CreatedWords::single(0)` (debug assertion; a release build pushes a node of
/// length 0), the repaired code returns `Ok(0)` without a node.  Anything else than "no node, no panic" = pinned.
pub fn regex_skips_empty() -> bool {
    static P: std::sync::OnceLock<bool> = std::sync::OnceLock::new();
    *P.get_or_init(|| {
        let rows = vec![Row::simple("あ", 0, 0, 100, NOUN)];
        let re = format!(r#"{{"class":"com.worksap.nlp.sudachi.RegexOovProvider","regex":"[a]{{0,}}","leftId":0,"rightId":0,"cost":100,"oovPOS":{},"maxLength":8,"boundaries":"relaxed"}}"#, OOV_POS_JSON);
        let (_wd, dic) = match dict_from("C03-probe-regex", &rows, "1 1\n0 0 10\n", &[], &[re, simple_oov_json(0, 0, 3000)], &[]) {
            Ok(x) => x,
            Err(_) => return false,
        };
        let r = catch(|| {
            let mut ib = InputBuffer::from("b");
            if ib.build(dic.grammar()).is_err() { return false; }
            let mut nodes: Vec<Node> = vec![];
            let plugin = &dic.oov_provider_plugins()[0];
            match plugin.provide_oov(&ib, 0, sudachi::analysis::created::CreatedWords::empty(), &mut nodes) {
                Ok(0) => nodes.is_empty(),
                _ => false,
            }
        });
        r == Ok(true)
    })
}

/// what `Morpheme::total_cost()` of a node made by `NodeSplitIterator` is in the linked tree: `max` = `i32::MAX` (the pinned
/// code: `ResultNode::new(inner, i32::MAX, ..)`), `parent` = the total of the node it was split from (the repair
/// `fix: split units report the path cost of the word they come from`).  Behavioural probe, once: `ab` = `a` + `b`, mode A.
pub fn unit_cost_variant() -> &'static str {
    static P: std::sync::OnceLock<&'static str> = std::sync::OnceLock::new();
    *P.get_or_init(|| {
        let mut rows = vec![Row::simple("a", 0, 0, 100, NOUN), Row::simple("b", 0, 0, 100, NOUN), Row::simple("ab", 0, 0, 50, NOUN)];
        rows[2].mode = 'C';
        rows[2].split_a = "0/1".into();
        let (_wd, dic) = match dict_from("C03-probe-ucost", &rows, "1 1\n0 0 10\n", &[], &[simple_oov_json(0, 0, 3000)], &[]) {
            Ok(x) => x,
            Err(_) => return "max",
        };
        let r = catch(|| {
            let mut tok = StatefulTokenizer::new(dic.clone(), Mode::A);
            tok.reset().push_str("ab");
            if tok.do_tokenize().is_err() { return false; }
            let mut ml = MorphemeList::empty(dic.clone());
            if ml.collect_results(&mut tok).is_err() { return false; }
            ml.len() == 2 && ml.get(0).total_cost() != i32::MAX && ml.get(1).total_cost() != i32::MAX
        });
        if r == Ok(true) { "parent" } else { "max" }
    })
}

fn access_line(run: &mut Run, idx: usize, w: &Whole) {
    if w.outcome != "ok" || w.morphs.is_empty() || w.orig.len() > 2000 { return; }
    if w.morphs.iter().any(|m| m.units_a.is_none() || m.units_b.is_none()) { run.bump("access:units-unreadable"); return; }
    let u = |v: &Option<Vec<usize>>| { let v = v.as_ref().unwrap(); if v.is_empty() { "-".to_string() } else { join(v.iter(), "+") } };
    let payload = format!("orig={} cur={} m2o={} nodes={} split={}", hex(w.orig.as_bytes()), hex(w.cur.as_bytes()), join(w.m2o.iter(), ","),
        w.morphs.iter().map(|m| format!("{}:{}:{}:{}:{}:{}", m.node.0, m.node.1, m.node.2, m.node.3, u(&m.units_a), u(&m.units_b))).collect::<Vec<_>>().join(";"),
        split_variant());
    let ans = format!("ok {}", w.morphs.iter().map(|m| format!("{}/{}/{}", m.p.acc, m.split_a, m.split_b)).collect::<Vec<_>>().join(";"));
    let nontrivial = w.cur != w.orig || w.morphs.iter().any(|m| m.split_a != "-" || m.split_b != "-");
    if w.morphs.iter().any(|m| m.split_a != "-" || m.split_b != "-") { run.bump("access:with-splits"); }
    run.case(idx, "access", &payload, &ans, nontrivial);
}

// ------------------------------------------------------------------------------------------------
// op `cost`: the real Lattice driven directly

struct CostDict { _wd: Workdir, dic: D, nl: usize, cells: Vec<i64> }

fn cost_dict(rng: &mut Rng, tag: &str, uniform: Option<i16>) -> Result<CostDict, String> {
    let n = if uniform.is_some() { 1 } else { rng.range(1, 4) };
    let mut m = Matrix::random(rng, n, n, true);
    if let Some(v) = uniform { m.cells = vec![v; n * n]; }
    else {
        for c in m.cells.iter_mut() { if rng.chance(1, 3) { *c = *rng.pick(&[32767i16, 32766, -32768, -32767, 0, 1, -1]); } }
    }
    let rows = vec![Row::simple("あ", 0, 0, 100, NOUN)];
    let (wd, dic) = dict_from(tag, &rows, &m.text(), &[], &[simple_oov_json(0, 0, 100)], &[])?;
    let mut cells = vec![];
    for b in 0..n { for a in 0..n { cells.push(m.cost(a, b) as i64); } }
    Ok(CostDict { _wd: wd, dic, nl: n, cells })
}

/// (b, e, l, r, c)
type CNode = (usize, usize, usize, usize, i64);

fn run_lattice(cd: &CostDict, len: usize, nodes: &[CNode]) -> (bool, Vec<(i32, u16, u32)>, String) {
    let mut lat = Lattice::default();
    let conn = cd.dic.grammar().conn_matrix();
    let r = catch(|| {
        lat.reset(len);
        for n in nodes {
            lat.insert(Node::new(n.0 as u16, n.1 as u16, n.2 as u16, n.3 as u16, n.4 as i16, WordId::new(0, 1)), conn);
        }
        lat.connect_eos(conn)
    });
    let rows = lat.verif_rows();
    let mut ents: Vec<(usize, usize, usize, i32, u16, u32)> = vec![];
    for row in rows.iter() {
        for (i, x) in row.iter().enumerate() { ents.push((x.0, x.1, i, x.6, x.7, x.8)); }
    }
    ents.sort_by_key(|x| (x.0, x.1, x.2));
    let stored: Vec<(i32, u16, u32)> = ents.iter().map(|x| (x.3, x.4, x.5)).collect();
    let eos = match &r {
        Err(_) => if stored.len() == nodes.len() { "PANIC".to_string() } else { "-".to_string() },
        Ok(Err(_)) => "x".to_string(),
        Ok(Ok(())) => lat.verif_eos().map_or("?".to_string(), |e| format!("{}:{}:{}", e.2, e.0, e.1)),
    };
    (r.is_err(), stored, eos)
}

fn cks(stored: &[(i32, u16, u32)]) -> i64 {
    let mut s: i64 = 0;
    for x in stored { s = (s * 31 + x.0 as i64).rem_euclid(1_000_000_007); }
    s
}

fn cost_answer(nodes_len: usize, panicked: bool, stored: &[(i32, u16, u32)], eos: &str, summary: bool) -> String {
    if summary {
        let head = if panicked && stored.len() < nodes_len { "PANIC" } else { "ok" };
        format!("{} n={} cks={} eos={}", head, stored.len(), cks(stored), eos)
    } else if panicked && stored.len() < nodes_len {
        format!("PANIC n={} cks={} eos=-", stored.len(), cks(stored))
    } else {
        format!("ok n={} ents={} eos={}", stored.len(), stored.iter().map(|x| format!("{}:{}:{}", x.0, x.1, x.2)).collect::<Vec<_>>().join(","), eos)
    }
}

fn cost_case(run: &mut Run, idx: usize, rng: &mut Rng, cd: &CostDict) {
    let len = rng.range(1, 9);
    let k = rng.range(1, 14);
    let mut nodes: Vec<CNode> = vec![];
    let oob = rng.chance(1, 16);
    for _ in 0..k {
        let b = rng.below(len);
        let e = if oob && rng.chance(1, 4) { len + rng.range(1, 2) } else { rng.range(b + 1, len.min(b + 3)) };
        let c = if rng.chance(1, 2) { *rng.pick(&[32767i64, 32766, -32768, -32767, 0]) } else { rng.below(20000) as i64 - 10000 };
        nodes.push((b, e, rng.below(cd.nl), rng.below(cd.nl), c));
    }
    if oob && rng.chance(1, 3) { let b = len + 1; nodes.push((b, b + 1, 0, 0, 5)); }
    nodes.sort_by_key(|x| (x.0, x.1));
    // the real builder only inserts at positions that have a previous node; unreachable begins are
    // kept on purpose here (total stays i32::MAX)
    let (panicked, stored, eos) = run_lattice(cd, len, &nodes);
    let payload = format!("profile={} len={} conn={}:{}:{} nodes={}", profile(), len, cd.nl, cd.nl, join(cd.cells.iter(), ","),
        nodes.iter().map(|x| format!("{}:{}:{}:{}:{}", x.0, x.1, x.2, x.3, x.4)).collect::<Vec<_>>().join(";"));
    let ans = cost_answer(nodes.len(), panicked, &stored, &eos, false);
    run.bump(if panicked { "cost:panic" } else { "cost:ok" });
    if stored.iter().any(|x| x.0 == i32::MAX) { run.bump("cost:unconnected-node"); }
    run.case(idx, "cost", &payload, &ans, stored.len() >= 2);
}

fn chain_case(run: &mut Run, idx: usize, n: usize, c0: i64, c: i64, conn: i16) {
    let mut rng = Rng::for_case(run.opts.seed, idx);
    let cd = match cost_dict(&mut rng, &format!("C03-chain{}", idx), Some(conn)) {
        Ok(c) => c,
        Err(e) => { run.bump(&format!("dict-error:{}", e.chars().take(40).collect::<String>())); return; }
    };
    let nodes: Vec<CNode> = (0..n).map(|i| (i, i + 1, 0, 0, if i == 0 { c0 } else { c })).collect();
    let (panicked, stored, eos) = run_lattice(&cd, n, &nodes);
    let payload = format!("profile={} len={} conn=1:1:{} gen=chain:{}:{}:{} sum=1", profile(), n, conn, n, c0, c);
    let ans = cost_answer(nodes.len(), panicked, &stored, &eos, true);
    run.bump(if panicked { "cost:chain-panic" } else { "cost:chain-ok" });
    run.case(idx, "cost", &payload, &ans, true);
}

fn profile() -> &'static str { if cfg!(debug_assertions) { "debug" } else { "release" } }

// ------------------------------------------------------------------------------------------------
// op `limits`: start_build / commit at the length limits

/// (start, end, unit, count): replace [start,end) with `unit` repeated `count` times
type REdit = (usize, usize, &'static str, usize);

fn m2o_cks(m2o: &[usize]) -> u64 {
    let mut s: u64 = 0;
    for v in m2o.iter() { s = (s * 31 + *v as u64) % 1_000_000_007; }
    s
}

fn run_limits(orig_unit: &str, orig_count: usize, batches: &[Vec<REdit>]) -> String {
    let orig = rep(orig_unit, orig_count);
    let res = catch(|| -> String {
        let mut buf = InputBuffer::new();
        buf.reset().push_str(&orig);
        if buf.start_build().is_err() { return "err:TooLong at=start".into(); }
        for (k, b) in batches.iter().enumerate() {
            let b2 = b.clone();
            let r = buf.with_editor(move |_, mut ed| {
                for e in b2.iter() { ed.replace_own(e.0..e.1, rep(e.2, e.3)); }
                Ok(ed)
            });
            if r.is_err() {
                // a rejected batch must leave nothing behind: the pending edits are gone (an editor call without
                // edits succeeds and changes nothing) and text and offset map are those before the batch
                let r2 = buf.with_editor(|_, ed| Ok(ed));
                let t = buf.verif_tables();
                return format!("err:TooLong at={} after={}:{}:{}:{}", k, if r2.is_ok() { "ok" } else { "err" }, t.modified.len(), t.m2o.len(), m2o_cks(&t.m2o));
            }
        }
        let t = buf.verif_tables();
        format!("ok len={} m2o={} last={} cks={}", t.modified.len(), t.m2o.len(), t.m2o.last().copied().unwrap_or(0), m2o_cks(&t.m2o))
    });
    match res { Ok(s) => s, Err(_) => "PANIC".into() }
}

fn limits_payload(orig_unit: &str, orig_count: usize, batches: &[Vec<REdit>]) -> String {
    let bs = batches.iter().map(|b| if b.is_empty() { "-".to_string() } else {
        b.iter().map(|e| format!("{}/{}/rep:{}:{}", e.0, e.1, hex(e.2.as_bytes()), e.3)).collect::<Vec<_>>().join(",")
    }).collect::<Vec<_>>().join(";");
    format!("orig=rep:{}:{} batches={} commit={}", hex(orig_unit.as_bytes()), orig_count, bs, commit_variant())
}

fn limits_case(run: &mut Run, idx: usize, rng: &mut Rng, directed: Option<usize>) {
    let (unit, count, batches): (&'static str, usize, Vec<Vec<REdit>>) = match directed {
        Some(0) => ("a", 49149, vec![vec![(0, 1, "b", 16387)]]),                       // 65535 exactly
        Some(1) => ("a", 49149, vec![vec![(0, 1, "b", 16388)]]),                       // 65536
        Some(2) => ("a", 49149, vec![vec![(0, 1, "b", 16388), (1, 49149, "", 0)]]),    // exceeds in the middle of the batch
        Some(3) => ("a", 49149, vec![vec![(1, 49149, "", 0)], vec![(0, 1, "b", 65535)], vec![(0, 0, "c", 1)]]), // shrink, grow to 65535, one more byte
        Some(4) => ("a", 49150, vec![]),
        Some(5) => ("あ", 16383, vec![vec![(0, 3, "x", 1)], vec![], vec![(1, 4, "あ", 5463)]]),
        // one batch that first expands (running length 89148) and then contracts to exactly 65535 / 65536 bytes: the
        // limit on the FINAL length (the pinned running-length guard rejects both, the repaired guard only the second)
        Some(6) => ("a", 49149, vec![vec![(0, 1, "b", 40000), (1, 23614, "", 0)]]),
        Some(7) => ("a", 49149, vec![vec![(0, 1, "b", 40000), (1, 23613, "", 0)], vec![(0, 1, "", 0)]]),
        _ => {
            let unit: &'static str = *rng.pick(&["a", "あ", "é"]);
            let ul = unit.len();
            let target = *rng.pick(&[MAX_LENGTH - 1, MAX_LENGTH, MAX_LENGTH + 1, 30000, 1000, 12]);
            let count = if rng.chance(1, 6) { target / ul + 1 } else { target / ul };
            let mut cur = count * ul;
            let mut batches = vec![];
            if cur <= MAX_LENGTH {
                let nb = rng.range(1, 3);
                for _ in 0..nb {
                    let ne = rng.range(0, 3);
                    let mut b: Vec<REdit> = vec![];
                    let mut pos = 0usize;
                    let nchars = cur / ul; // the text stays a multiple of one unit only in the first batch; later batches use offset 0 only
                    let mut delta: i64 = 0;
                    for j in 0..ne {
                        if !batches.is_empty() && j > 0 { break; }
                        if pos >= nchars { break; }
                        let s = if batches.is_empty() { pos + rng.below((nchars - pos).min(5) + 1) } else { 0 };
                        if s > nchars { break; }
                        let rlen = if batches.is_empty() { rng.below((nchars - s).min(4) + 1) } else { 0 };
                        // aim at the 65535 limit
                        let room = REALLY_MAX as i64 - (cur as i64 + delta) + (rlen * ul) as i64;
                        let w: &'static str = *rng.pick(&["b", "い", "ab"]);
                        let wl = w.len() as i64;
                        let cnt = match rng.below(5) {
                            0 => 0,
                            1 => (room / wl).max(0),
                            2 => (room / wl + 1).max(0),
                            3 => rng.below(40) as i64,
                            _ => (room / wl - rng.below(3) as i64).max(0),
                        } as usize;
                        if rlen == 0 && cnt == 0 { continue; }
                        b.push((s * ul, (s + rlen) * ul, w, cnt));
                        delta += cnt as i64 * wl - (rlen * ul) as i64;
                        pos = s + rlen;
                    }
                    let ok = cur as i64 + delta <= REALLY_MAX as i64;
                    batches.push(b);
                    if !ok { break; }
                    cur = (cur as i64 + delta) as usize;
                    if cur == 0 { break; }
                }
            }
            (unit, count, batches)
        }
    };
    let ans = run_limits(unit, count, &batches);
    run.bump(&format!("limits:{}", ans.split(' ').next().unwrap_or("?")));
    if ans.starts_with("ok len=65535") { run.bump("limits:exactly-65535"); }
    let payload = limits_payload(unit, count, &batches);
    run.case(idx, "limits", &payload, &ans, !batches.is_empty());
    if ans == "PANIC" {
        run.fail(idx, "c03:limits:panic", &format!("InputBuffer start_build/with_editor panics on {}", payload.chars().take(200).collect::<String>()));
    }
}

// ------------------------------------------------------------------------------------------------
// op `pipe`: the WHOLE pipeline on a small world, executed by the model (`Total.tokenize` through `Model/TotalIO.lean`)
//
// World = C13's generated char.def / unk.def / provider stack / lexicon (same tokens as a `C13 lat` line) + C07's
// generated input-text plugin stack (same tokens as a `C07 run` line, `rwdef=` for the rewrite table) + the connection
// matrix (same token as a `cost` line) + A/B split declarations (unit key lengths per lexicon row, `lexu=`) + mode.
// Answer = outcome class and, for `ok`, per morpheme the node range and begin/end/begin_c/end_c/surface range.

struct PipeCtx {
    c13: crate::c13::Ctx,
}

fn pipe_ctx() -> PipeCtx {
    let wd = Workdir::new_legacy("c03-pipe");
    let system = build_system(csv_of(&crate::c13::fixed_rows(), &default_pos()).as_bytes(), Matrix::random(&mut Rng::new(77), crate::c13::N_IDS, crate::c13::N_IDS, false).text().as_bytes()).expect("system dictionary");
    wd.write("unk.def", "");
    wd.write("char.def", "DEFAULT 0 1 0\n");
    let poslist_hex = {
        let dic = load(&config_json(&wd, &[], &[simple_oov_json(0, 0, 0)], &[], &[]), system.clone(), vec![]).expect("baseline dictionary");
        let s: String = dic.grammar().pos_list.iter().map(|p| format!("{}\n", p.join(","))).collect();
        hex(s.as_bytes())
    };
    PipeCtx { c13: crate::c13::Ctx { wd, system, poslist_hex } }
}

/// adds A/B split declarations to some multi-character rows (unit rows are appended when missing); every third
/// declaration is ill-formed on purpose (units that do not concatenate to the key: D6 territory, loads fine)
fn add_splits(rng: &mut Rng, lex: &mut Vec<Row>, pool: &[char]) -> Vec<String> {
    // compounds of two or three existing or new short words, cheap enough to be chosen
    for _ in 0..rng.range(1, 2) {
        let nparts = rng.range(2, 3);
        let parts: Vec<String> = (0..nparts).map(|_| if lex.len() > POS.len() && rng.chance(1, 2) { lex[rng.range(POS.len(), lex.len() - 1)].surface.clone() } else { rand_word(rng, pool, 2) }).collect();
        let surface: String = parts.concat();
        if surface.chars().count() > 6 || lex.iter().any(|r| r.surface == surface) { continue; }
        lex.push(Row::simple(&surface, crate::c13::small_id(rng) as i32, crate::c13::small_id(rng) as i32, rng.below(400) as i32 - 450, rng.below(POS.len())));
    }
    let n0 = lex.len();
    let mut with_split: Vec<String> = vec![];
    let cands: Vec<usize> = (0..n0).rev().filter(|&i| lex[i].surface.chars().count() >= 2 && !lex[i].surface.starts_with('ん')).collect();
    for &i in cands.iter().take(4) {
        if rng.chance(1, 4) { continue; }
        let cs: Vec<char> = lex[i].surface.chars().collect();
        let cut = rng.range(1, cs.len() - 1);
        let mut parts: Vec<String> = vec![cs[..cut].iter().collect(), cs[cut..].iter().collect()];
        if rng.chance(1, 3) {
            // ill-formed: a unit that is longer than its share, or units in the wrong order
            if rng.chance(1, 2) { parts.swap(0, 1); } else { parts[0] = format!("{}{}", parts[0], parts[1]); }
        }
        let mut ids = vec![];
        for p in &parts {
            let id = match lex.iter().position(|r| &r.surface == p) {
                Some(k) => k,
                None => { lex.push(Row::simple(p, crate::c13::small_id(rng) as i32, crate::c13::small_id(rng) as i32, rng.below(9000) as i32 - 500, rng.below(POS.len()))); lex.len() - 1 }
            };
            ids.push(id);
        }
        let decl = join(ids.iter(), "/");
        lex[i].mode = 'C';
        if rng.chance(2, 3) { lex[i].cost = rng.below(400) as i32 - 450; }
        with_split.push(lex[i].surface.clone());
        match rng.below(3) {
            0 => { lex[i].split_a = decl; }
            1 => { lex[i].split_b = decl; }
            _ => { lex[i].split_a = decl.clone(); lex[i].split_b = decl; }
        }
    }
    // the model identifies a path node with the FIRST row of that surface, ids and cost: rows that agree in all four get the
    // same declaration (they are homographs the lattice cannot tell apart either: the first one inserted wins)
    for i in 0..lex.len() {
        if let Some(k) = (0..i).find(|&k| lex[k].surface == lex[i].surface && lex[k].left == lex[i].left && lex[k].right == lex[i].right && lex[k].cost == lex[i].cost) {
            let (a, b, m) = (lex[k].split_a.clone(), lex[k].split_b.clone(), lex[k].mode);
            lex[i].split_a = a; lex[i].split_b = b; lex[i].mode = m;
        }
    }
    with_split
}

fn unit_lens(lex: &[Row], decl: &str) -> String {
    if decl == "*" { return "-".into(); }
    join(decl.split('/').map(|x| lex[x.parse::<usize>().unwrap()].surface.len()), "+")
}

fn pipe_case(run: &mut Run, idx: usize, rng: &mut Rng, pc: &PipeCtx) {
    use crate::c13::Prov;
    let with_input = rng.chance(1, 2);
    let d = crate::c13::gen_defs(rng, with_input, false);
    let mut lc = crate::c13::gen_lat(rng, &d);
    let split_words = add_splits(rng, &mut lc.lex, &d.pool);
    let mut c7 = crate::c07::gen_cfg(rng, None);
    if !with_input { c7.pipe.clear(); }
    let extreme_m = rng.chance(1, 4);
    let matrix = Matrix::random(rng, crate::c13::N_IDS, crate::c13::N_IDS, extreme_m);
    let mode = mode_of(rng.below(3));
    // text: characters of the char.def pool, of the plugin configuration, and what the plugins rewrite
    let mut extra: Vec<char> = crate::c13::NORMALISED.to_vec();
    if with_input {
        extra.extend(c7.pool.iter().take(4));
        extra.extend(c7.marks.iter().take(2));
        extra.extend(c7.yl.iter().take(1));
        extra.extend(c7.yr.iter().take(1));
        extra.extend(['ー', '漢', 'か']);
    }
    let mut text = crate::c13::gen_text(rng, &d.pool, &extra);
    if rng.chance(1, 6) { for r in lc.lex.iter().rev().take(2) { text.push_str(&r.surface); } }
    if !split_words.is_empty() && rng.chance(2, 3) {
        // the words that carry a split declaration occur in the text
        for _ in 0..rng.range(1, 2) {
            let wds = rng.pick(&split_words).clone();
            let cs: Vec<char> = text.chars().collect();
            let at = rng.below(cs.len() + 1);
            text = cs[..at].iter().collect::<String>() + &wds + &cs[at..].iter().collect::<String>();
        }
    }
    if text.chars().count() > 48 { text = text.chars().take(48).collect(); }
    if rng.chance(1, 40) { text.clear(); }
    // ---- the real world
    let wd = &pc.c13.wd;
    wd.write("char.def", &d.char_def);
    wd.write("unk.def", &d.unk_def);
    wd.write("rw.def", &c7.def_text);
    let oov: Vec<String> = lc.provs.iter().map(|p| match p { Prov::M => crate::c13::mecab_json(), Prov::S => crate::c13::simple_json(&lc.sp), Prov::R => crate::c13::regex_json(&lc.rp) }).collect();
    let mut input: Vec<String> = c7.pipe.iter().map(|&p| crate::c07::plugin_json(&c7, p)).collect();
    let kinds: Vec<&str> = lc.provs.iter().map(|p| match p { Prov::M => "m", Prov::S => "s", Prov::R => "r" }).collect();
    let mut ptoks = vec![];
    for (k, p) in [("m", Prov::M), ("s", Prov::S), ("r", Prov::R)] {
        if kinds.contains(&k) { ptoks.push(crate::c13::prov_tokens(&p, &d, &lc.sp, &lc.rp, &pc.c13)); }
    }
    let lex_tok = join(lc.lex.iter().map(|r| format!("{}:{}:{}:{}", join(r.surface.chars().map(|c| c as u32), "."), r.left, r.right, r.cost)), ";");
    let lexu_tok = join(lc.lex.iter().map(|r| format!("{}/{}", unit_lens(&lc.lex, &r.split_a), unit_lens(&lc.lex, &r.split_b))), ";");
    let mut cells = vec![];
    for b in 0..matrix.nr { for a in 0..matrix.nl { cells.push(matrix.cost(a, b) as i64); } }
    let mode_s = match mode { Mode::A => "A", Mode::B => "B", _ => "C" };
    let world_tokens = |c7: &crate::c07::Cfg, uni: &str| format!(
        "mode={} cdef={} variant={}{} provs={} {} lex={} lexu={} conn={}:{}:{} {} uni={} split={} commit={} profile={} ucost={}",
        mode_s, hex(d.char_def.as_bytes()), if crate::c13::source_is_forward() { "fwd" } else { "bwd" }, if crate::c13::source_chains_bow_ban() { " bow=fix" } else { "" },
        kinds.join("."), ptoks.join(" "), lex_tok, lexu_tok, matrix.nl, matrix.nr, join(cells.iter(), ","),
        crate::c07::setup_payload(c7, crate::c07::impl_earliest()).replace(" def=", " rwdef="), uni, split_variant(), commit_variant(), profile(), unit_cost_variant());
    run.bump(&format!("pipe:providers:{}", kinds.join(".")));
    run.bump(&format!("pipe:input:{}", c7.pipe.iter().collect::<String>()));
    let system = match build_system(csv_of(&lc.lex, &default_pos()).as_bytes(), matrix.text().as_bytes()) {
        Ok(s) => s,
        Err(e) => { run.bump(&format!("pipe:build-error:{}", e.chars().take(40).collect::<String>())); return; }
    };
    let mut loaded = load(&config_json(wd, &input, &oov, &[], &[]), system.clone(), vec![]);
    if let Err(e) = &loaded {
        // IgnoreYomiganaPlugin builds its pattern from the KANJI ranges of char.def: a generated char.def without KANJI
        // characters gives an empty class and the plugin (rightly) fails to set up; such a world runs without the plugin
        if c7.pipe.contains(&'Y') && e.contains("IgnoreYomiganaPlugin") {
            c7.pipe.retain(|&p| p != 'Y');
            input = c7.pipe.iter().map(|&p| crate::c07::plugin_json(&c7, p)).collect();
            run.bump("pipe:yomigana-dropped(no KANJI range in char.def)");
            loaded = load(&config_json(wd, &input, &oov, &[], &[]), system, vec![]);
        }
    }
    let dic: D = match loaded {
        Ok(x) => Arc::new(x),
        Err(e) => {
            run.case(idx, "pipe", &format!("orig={} {}", hex(text.as_bytes()), world_tokens(&c7, "")), "err:setup", false);
            run.bump("pipe:setup-error");
            let expected = d.broken || (c7.pipe.contains(&'D') && c7.table.is_none()) || (c7.pipe.contains(&'P') && c7.marks.is_empty()) || (c7.pipe.contains(&'Y') && c7.yn == 0);
            if !expected { run.fail(idx, "c03:pipe:setup", &format!("a well-formed configuration was rejected: {}", e.chars().take(200).collect::<String>())); }
            return;
        }
    };
    let uni = {
        let cl = crate::c07::Classes { dic: &dic };
        let mut chars: std::collections::BTreeSet<char> = crate::c07::cfg_chars(&c7);
        chars.extend(text.chars());
        crate::c07::facts_for(&chars, &cl)
    };
    let payload = format!("orig={} {}", hex(text.as_bytes()), world_tokens(&c7, &uni));
    let default_plugin = c7.pipe.contains(&'D');
    let hist = if rng.chance(1, 2) { gen_hist(rng, &text, None, default_plugin) } else { Hist::default() };
    let ana = whole(&dic, &text, mode, 60_000, &hist);
    let fallback = matches!(lc.provs.last(), Some(Prov::S));
    run.bump(if fallback { "pipe:fallback-last" } else { "pipe:no-fallback-last" });
    match &ana {
        Ana::Hang => { run.case(idx, "pipe", &payload, "HANG", true); }
        Ana::Done(w) => {
            let ans = if w.outcome == "ok" {
                let ms = w.morphs.iter().map(|m| format!("{}:{}:{}:{}/{}", m.node.0, m.node.1, m.node.2, m.node.3, m.p.acc)).collect::<Vec<_>>().join(";");
                if w.icost == "P" { run.bump("pipe:get_internal_cost-panics"); }
                let oov = w.morphs.iter().filter_map(|m| m.oov_pos.map(|p| format!("{}:{}:{}", m.node.0, m.node.1, p))).collect::<Vec<_>>();
                if !oov.is_empty() { run.bump("pipe:oov-morphemes"); }
                let rows = if w.cur.is_empty() { 0 } else { w.maxrow };
                run.bump(&format!("pipe:longest-row:{}", if rows >= 16 { "16+".to_string() } else { rows.to_string() }));
                format!("ok n={} {} cost={} rows={} oov={}", w.morphs.len(), ms, w.icost, rows, if oov.is_empty() { "-".to_string() } else { oov.join(",") })
            } else if w.outcome.starts_with("err:Other") { "err:Other".to_string() } else { w.outcome.clone() };
            let split_seen = w.morphs.len() >= 2 && (mode != Mode::C);
            if w.outcome == "ok" {
                run.bump(&format!("pipe:morphemes:{}", w.morphs.len().min(8)));
                if w.cur != w.orig { run.bump("pipe:text-rewritten"); }
            }
            run.case(idx, "pipe", &payload, &ans, w.outcome != "ok" || w.morphs.len() >= 2 || split_seen);
        }
    }
    let may_delete_all = (c7.pipe.contains(&'P') && c7.rep.as_deref() == Some("")) || c7.pipe.contains(&'Y');
    let ex = Expect { tag: if text.contains('\u{0}') { "gen-nul" } else { "pipe" }, fallback, default_plugin, limit_relevant: false, may_delete_all };
    judge(run, idx, &ex, &text, mode, &ana, &format!("pipe world providers={} input={}", kinds.join("."), c7.pipe.iter().collect::<String>()), &hist);
}

// ------------------------------------------------------------------------------------------------

pub fn run(run: &mut Run) {
    run.extra.insert("model_variant_split".into(), serde_json::json!(split_variant()));
    run.bump(&format!("model-variant:split={}", split_variant()));
    run.extra.insert("model_variant_commit".into(), serde_json::json!(commit_variant()));
    run.bump(&format!("model-variant:commit={}", commit_variant()));
    run.extra.insert("model_variant_unit_cost".into(), serde_json::json!(unit_cost_variant()));
    run.bump(&format!("model-variant:unit-cost={}", unit_cost_variant()));
    run.extra.insert("model_variant_regex_skips_empty".into(), serde_json::json!(regex_skips_empty()));
    run.bump(&format!("model-variant:regex-skips-empty={}", regex_skips_empty()));
    run.rule = "directed: D7 chains (32768/32769/40000 one-character words of cost 32767, connection 32767), total = i32::MAX sentinel, D6 split longer \
than parent, regex matching the empty string, commit running length, 49148/49149/49150-byte inputs, NFKC x18 / x4 expansions crossing 65535 bytes, NUL/controls/ZWJ, \
class runs, JoinNumeric hang; generated: random worlds (all plugin stacks, with/without fallback, i16-extreme costs) x adversarial texts (specials, 60-70 class runs, \
one repeated character, random scalar values, budgeted 49k/65k-byte texts) x modes A/B/C with every accessor of every morpheme and sub-morpheme under catch_unwind on a worker thread; \
op cost = the real Lattice driven with random candidates and extreme costs; op limits = start_build/commit at the limits; op access = accessors recomputed from the dumped tables; \
op pipe = the whole pipeline on small worlds (C13 char.def/unk.def/provider stacks/lexicon, C07 input-plugin stacks, random matrix, A/B split declarations incl. ill-formed ones, modes A/B/C, texts <= 48 characters) \
executed by the model (Total.tokenize): outcome class, every morpheme's node range and accessors, get_internal_cost; about half of all whole-tokenizer analyses run on a RECYCLED StatefulTokenizer + MorphemeList \
(1-4 earlier texts: longer, shorter, empty, rejected by either limit, other modes; a third of the short ones with the debug flag). \
non-trivial = access line with a changed text or a split, cost line with >= 2 nodes, limits line with a batch, pipe line with an error outcome or >= 2 morphemes; distinct by line".into();
    let n = run.opts.count;
    let seed = run.opts.seed;
    let mut cur_world: Option<(usize, Result<(World, D), String>)> = None;
    let mut cur_cost: Option<(usize, Result<CostDict, String>)> = None;
    let mut pipe: Option<PipeCtx> = None;
    let order: Vec<usize> = (0..n).filter(|&i| i != HANG_CASE).chain(if HANG_CASE < n { Some(HANG_CASE) } else { None }).collect();
    for idx in order {
        if !run.wants(idx) { continue; }
        let mut rng = Rng::for_case(seed, idx);
        if idx < N_DIRECTED {
            match idx {
                0 => { chain_case(run, idx, 32768, 32767, 32767, 32767); chain_case(run, idx, 32767, -32768, -32768, -32768); continue; }
                1 => { chain_case(run, idx, 32769, 32767, 32767, 32767); chain_case(run, idx, 32768, -32768, -32768, -32768); chain_case(run, idx, 32771, 32767, 32767, 32767); continue; }
                _ => {}
            }
            let d = match directed(idx) { Some(d) => d, None => continue };
            let (wd, dic) = match d.dic {
                Ok(x) => x,
                Err(e) => {
                    run.bump(&format!("directed-dict-error:{}", d.name));
                    run.fail_with_line(idx, "", &format!("c03:{}:dictionary", d.name), &format!("the directed dictionary does not build/load: {}", e));
                    continue;
                }
            };
            let timeout = if idx == HANG_CASE { 4000 } else { 120_000 };
            let hist = if idx % 2 == 1 { gen_hist(&mut Rng::for_case(seed ^ 0x4157, idx), &d.text, None, d.default_plugin) } else { Hist::default() };
            let ana = whole(&dic, &d.text, d.mode, timeout, &hist);
            run.bump(&format!("directed:{}", d.name));
            // a case line for the directed analysis: the access line when small, else a limits-style observation
            let before = run.failures.len();
            if let Ana::Done(w) = &ana { access_line(run, idx, w); }
            let ex = Expect { tag: d.name, fallback: d.fallback, default_plugin: d.default_plugin, limit_relevant: true, may_delete_all: false };
            judge(run, idx, &ex, &d.text, d.mode, &ana, "directed", &hist);
            let _ = before;
            // also tie the D7 chains through the real tokenizer to the model's chain
            if idx == 5 {
                chain_case(run, idx, 32770, 1, 32767, 32767);
            }
            drop(wd);
            continue;
        }
        if idx < N_DIRECTED + N_DIRECTED_LIMITS {
            limits_case(run, idx, &mut rng, Some(idx - N_DIRECTED));
            continue;
        }
        if idx == EXTRA_DIRECTED {
            // `MorphemeList::get_internal_cost()` = last.total_cost() - first.total_cost() in i32; a node made by
            // NodeSplitIterator carries i32::MAX as its total in the pinned tree: `東京都` = `東` (cost -300: total -290) +
            // `京都` (A-split `京`/`都`), mode A: i32::MAX - (-290) overflows
            let mut rows = vec![Row::simple("東", 0, 0, -300, NOUN), Row::simple("京", 0, 0, 100, NOUN), Row::simple("都", 0, 0, 100, NOUN), Row::simple("京都", 0, 0, 50, NOUN)];
            rows[3].mode = 'C';
            rows[3].split_a = "1/2".into();
            match dict_from("C03-d-icost", &rows, "1 1\n0 0 10\n", &[], &[simple_oov_json(0, 0, 3000)], &[]) {
                Ok((_wd, dic)) => {
                    for (k, mode) in [Mode::A, Mode::C].iter().enumerate() {
                        let hist = if k == 0 { Hist::default() } else { gen_hist(&mut rng, "東京都", None, false) };
                        let ana = whole(&dic, "東京都", *mode, 60_000, &hist);
                        run.bump("directed:internal-cost-split");
                        if let Ana::Done(w) = &ana { access_line(run, idx, w); }
                        let ex = Expect { tag: "internal-cost-split", fallback: true, default_plugin: false, limit_relevant: false, may_delete_all: false };
                        judge(run, idx, &ex, "東京都", *mode, &ana, "directed", &hist);
                    }
                }
                Err(e) => run.fail_with_line(idx, "", "c03:internal-cost-split:dictionary", &format!("the directed dictionary does not build/load: {}", e)),
            }
            continue;
        }
        if idx == EXTRA_DIRECTED + 1 {
            // the exact threshold of D7 on the real tokenizer: one-character words of cost -32768 over a 1x1 matrix of
            // -32768: 32767 characters are analysed (last total -2^31 + 65536), 32768 characters overflow at connect_eos
            // (Lean: C03.cost_overflow_threshold / C03.cost_no_overflow_partial)
            let rows = vec![Row::simple("1", 0, 0, -32768, NUMERAL), Row::simple("あ", 0, 0, 100, NOUN)];
            match dict_from("C03-d-neg", &rows, "1 1\n0 0 -32768\n", &[], &[simple_oov_json(0, 0, -32768)], &[]) {
                Ok((_wd, dic)) => {
                    for (name, n) in [("d7-neg-chain-32767", 32767usize), ("d7-neg-chain-32768", 32768usize)] {
                        let text = rep("1", n);
                        let hist = Hist::default();
                        let ana = whole(&dic, &text, Mode::C, 120_000, &hist);
                        run.bump(&format!("directed:{}", name));
                        if let Ana::Done(w) = &ana { run.bump(&format!("directed:{}:{}", name, w.outcome)); }
                        let ex = Expect { tag: name, fallback: true, default_plugin: false, limit_relevant: true, may_delete_all: false };
                        judge(run, idx, &ex, &text, Mode::C, &ana, "directed", &hist);
                    }
                    chain_case(run, idx, 32767, -32768, -32768, -32768);
                    chain_case(run, idx, 32768, -32768, -32768, -32768);
                }
                Err(e) => run.fail_with_line(idx, "", "c03:d7-neg-chain:dictionary", &format!("the directed dictionary does not build/load: {}", e)),
            }
            continue;
        }
        if idx == EXTRA_DIRECTED + 2 {
            // the point `hrowsz` excludes, on the real tokenizer: a grouped class (ALPHA 1 1 1) with 4 unk.def lines and a run of
            // 16400 letters puts 4 x 16400 = 65600 grouped candidates into the row of the run's end, so the u16 row index of
            // the back-pointer wraps for the candidates that begin in the last 16 positions.  C03 demands: no panic, every
            // accessor defined, the morphemes partition the text (judge); WHICH path comes out is C02's clause and is recorded.
            let wd = Workdir::new("C03-d-rowwrap");
            wd.write("char.def", "DEFAULT 0 1 0\nALPHA 1 1 1\n0x0061..0x007A ALPHA\n");
            let pos = crate::dict::POS[0].join(",");
            wd.write("unk.def", &format!("DEFAULT,0,0,100,{p}\nALPHA,0,0,-10,{p}\nALPHA,0,0,-9,{p}\nALPHA,0,0,-8,{p}\nALPHA,0,0,-7,{p}\n", p = pos));
            let rows = vec![Row::simple("あ", 0, 0, 100, NOUN)];
            let built = build_system(csv_of(&rows, &default_pos()).as_bytes(), "1 1\n0 0 0\n".as_bytes())
                .and_then(|sys| load(&config_json(&wd, &[], &[crate::c13::mecab_json(), simple_oov_json(0, 0, 3000)], &[], &[]), sys, vec![]));
            match built {
                Ok(d) => {
                    let dic: D = Arc::new(d);
                    for (name, n) in [("row-wrap-below", 16000usize), ("row-wrap", 16400usize)] {
                        let text = rep("a", n);
                        let hist = Hist::default();
                        let t0 = std::time::Instant::now();
                        let ana = whole(&dic, &text, Mode::C, 300_000, &hist);
                        run.bump(&format!("directed:{}", name));
                        if let Ana::Done(w) = &ana {
                            let obs = format!("{} x 'a': outcome {}, longest row {}, {} morphemes (the cheapest path has {}), {} ms",
                                n, w.outcome, w.maxrow, w.morphs.len(), n, t0.elapsed().as_millis());
                            run.bump(&format!("directed:{}:row>{}:morphemes={}", name, if w.maxrow > 65535 { "65535" } else { "<=65535" }, if w.morphs.len() == n { "cheapest-path".to_string() } else { w.morphs.len().to_string() }));
                            run.extra.insert(format!("observation_{}", name.replace('-', "_")), serde_json::json!(obs));
                        }
                        let ex = Expect { tag: name, fallback: true, default_plugin: false, limit_relevant: true, may_delete_all: false };
                        judge(run, idx, &ex, &text, Mode::C, &ana, "directed", &hist);
                    }
                }
                Err(e) => run.fail_with_line(idx, "", "c03:row-wrap:dictionary", &format!("the directed dictionary does not build/load: {}", e)),
            }
            continue;
        }
        match idx % 10 {
            0 | 1 => {
                let g = idx / 200;
                if cur_cost.as_ref().map(|c| c.0) != Some(g) {
                    cur_cost = None;
                    let mut r2 = Rng::for_case(seed ^ 0xC057, g);
                    cur_cost = Some((g, cost_dict(&mut r2, &format!("C03-cost{}", g), None)));
                }
                match &cur_cost.as_ref().unwrap().1 {
                    Ok(cd) => cost_case(run, idx, &mut rng, cd),
                    Err(e) => run.bump(&format!("cost-dict-error:{}", e.chars().take(40).collect::<String>())),
                }
            }
            2 if idx % 20 == 2 => limits_case(run, idx, &mut rng, None),
            3 | 8 => {
                if pipe.is_none() { pipe = Some(pipe_ctx()); }
                pipe_case(run, idx, &mut rng, pipe.as_ref().unwrap());
            }
            _ => {
                let widx = idx / CASES_PER_WORLD;
                if cur_world.as_ref().map(|w| w.0) != Some(widx) {
                    cur_world = None;
                    let mut o = WorldOpts::default();
                    o.extreme = widx % 2 == 1;
                    o.always_fallback = widx % 4 != 3;
                    let r = crate::c01::world_for(seed, "C03", widx, &o).map(|w| {
                        // the dictionary moves into an Arc (worker threads); the rest of the world stays
                        let World { wd, lex, matrix, users, user_pos, dic, cfg, desc, has_fallback, has_path_rewrite, input_kinds, system_csv, system_bin, user_bins } = w;
                        let d = Arc::new(dic);
                        let tiny = crate::c08::tiny_dict(&format!("C03-tiny{}", widx));
                        (World { wd, lex, matrix, users, user_pos, dic: tiny.1, cfg, desc, has_fallback, has_path_rewrite, input_kinds, system_csv, system_bin, user_bins }, d)
                    });
                    cur_world = Some((widx, r));
                }
                let (w, dic) = match &cur_world.as_ref().unwrap().1 {
                    Ok(x) => (&x.0, &x.1),
                    Err(e) => { run.bump(&format!("world-error:{}", e.chars().take(50).collect::<String>())); continue; }
                };
                let default_plugin = w.input_kinds.contains(&"default");
                let long = idx % 48 == 7;
                let (text, kind) = if long { long_text(&mut rng, default_plugin) } else { adversarial_text(&mut rng, w) };
                let mode = mode_of(rng.below(3));
                run.bump(&format!("text:{}", kind));
                for d in &w.desc { run.bump(d); }
                run.bump(if w.has_fallback { "fallback:last" } else { "fallback:none-or-not-last" });
                let hist = if rng.chance(1, 2) { gen_hist(&mut rng, &text, Some(w), default_plugin) } else { Hist::default() };
                let ana = whole(dic, &text, mode, 120_000, &hist);
                if let Ana::Done(wh) = &ana { access_line(run, idx, wh); }
                let ex = Expect { tag: if text.contains('\u{0}') { "gen-nul" } else { "gen" }, fallback: w.has_fallback, default_plugin, limit_relevant: long, may_delete_all: false };
                judge(run, idx, &ex, &text, mode, &ana, &w.desc.join(" "), &hist);
            }
        }
    }
}
