//! Shared generators: lexicon CSV + connection matrix + configuration, compiled by the real
//! DictBuilder and loaded by the real JapaneseDictionary.
#![allow(dead_code)]
use crate::common::*;
use std::path::PathBuf;
use sudachi::analysis::stateful_tokenizer::StatefulTokenizer;
use sudachi::analysis::Mode;
use sudachi::config::ConfigBuilder;
use sudachi::dic::build::DictBuilder;
use sudachi::dic::dictionary::JapaneseDictionary;
use sudachi::dic::storage::{Storage, SudachiDicData};
use sudachi::prelude::*;

pub const POS: &[[&str; 6]] = &[
    ["名詞", "普通名詞", "一般", "*", "*", "*"],
    ["名詞", "数詞", "*", "*", "*", "*"],
    ["助詞", "格助詞", "*", "*", "*", "*"],
    ["補助記号", "一般", "*", "*", "*", "*"],
    ["動詞", "一般", "*", "*", "五段-カ行", "終止形-一般"],
    ["名詞", "固有名詞", "地名", "一般", "*", "*"],
];
pub const NOUN: usize = 0;
pub const NUMERAL: usize = 1;
pub const SYMBOL: usize = 3;

/// characters words are made of (1, 2, 3 and 4 byte scalars; several scripts)
pub const WORD_CHARS: &[char] = &[
    'あ', 'い', 'う', 'ア', 'イ', 'ウ', 'ー', '東', '京', '都', 'a', 'b', 'é', '0', '1', '2', '。', '𠮷', 'ｱ',
];

/// characters texts are made of: the word characters plus what normalisation and OOV handling care about
pub const TEXT_CHARS: &[char] = &[
    'あ', 'い', 'う', 'ア', 'イ', 'ウ', 'ー', '東', '京', '都', 'a', 'b', 'é', '0', '1', '2', '。', '𠮷', 'ｱ',
    'A', 'Ｂ', 'ｂ', '３', ' ', '.', ',', '、', '!', '(', ')', '（', '）', '《', '》', '一', '二', '十', '百', '千', '万', '億',
    '\u{0301}', '\u{200d}', '👍', '🏻', '㍿', 'İ', '\u{0}', '\u{7}', '\u{378}', '～', '〜', 'ｶ', 'ﾞ', 'ｇ', '㌔', 'ǆ',
    'Ω', 'я', '\n', '漢', '字',
    // syntax characters of regexes / CSV / JSON / paths: ordinary text for every property
    '\\', '"', '\'', '^', '-', '|', '$', '*', '+', '[', ']', '{', '}', '<', '>', '&', '#', '/', '%', '=', ';', ':', '?', '_', '~', '`', '@',
];

#[derive(Clone, Debug)]
pub struct Row {
    pub surface: String,
    pub left: i32,
    pub right: i32,
    pub cost: i32,
    pub headword: String,
    pub pos: usize,
    pub reading: String,
    pub norm: String,
    pub dic_form: String,
    pub mode: char,
    pub split_a: String,
    pub split_b: String,
    pub wstruct: String,
    pub syn: String,
}

impl Row {
    pub fn simple(surface: &str, left: i32, right: i32, cost: i32, pos: usize) -> Row {
        Row {
            surface: surface.to_string(), left, right, cost, headword: surface.to_string(), pos,
            reading: surface.to_string(), norm: surface.to_string(), dic_form: "*".into(), mode: 'A',
            split_a: "*".into(), split_b: "*".into(), wstruct: "*".into(), syn: "*".into(),
        }
    }
    pub fn indexed(&self) -> bool { self.left >= 0 }
}

pub fn csv_field(s: &str) -> String {
    if s.contains(',') || s.contains('"') || s.contains('\n') || s.contains('\r') {
        format!("\"{}\"", s.replace('"', "\"\""))
    } else {
        s.to_string()
    }
}

pub fn csv_of(rows: &[Row], pos: &[[String; 6]]) -> String {
    let mut out = String::new();
    for r in rows {
        let p = &pos[r.pos];
        let fields: Vec<String> = vec![
            csv_field(&r.surface), r.left.to_string(), r.right.to_string(), r.cost.to_string(), csv_field(&r.headword),
            csv_field(&p[0]), csv_field(&p[1]), csv_field(&p[2]), csv_field(&p[3]), csv_field(&p[4]), csv_field(&p[5]),
            csv_field(&r.reading), csv_field(&r.norm), r.dic_form.clone(), r.mode.to_string(),
            csv_field(&r.split_a), csv_field(&r.split_b), r.wstruct.clone(), r.syn.clone(),
        ];
        out.push_str(&fields.join(","));
        out.push('\n');
    }
    out
}

pub fn default_pos() -> Vec<[String; 6]> {
    POS.iter().map(|p| [p[0].into(), p[1].into(), p[2].into(), p[3].into(), p[4].into(), p[5].into()]).collect()
}

#[derive(Clone, Debug)]
pub struct Matrix {
    pub nl: usize,
    pub nr: usize,
    /// cost(left_id_of_right_word = l, right_id_of_left_word = r) stored at [r * nl + l]
    pub cells: Vec<i16>,
}

impl Matrix {
    pub fn random(rng: &mut Rng, nl: usize, nr: usize, extreme: bool) -> Matrix {
        let mut cells = vec![0i16; nl * nr];
        for c in cells.iter_mut() {
            *c = if extreme && rng.chance(1, 4) {
                *rng.pick(&[i16::MAX, i16::MIN, i16::MAX - 1, -1])
            } else {
                rng.below(400) as i16 - 100
            };
        }
        Matrix { nl, nr, cells }
    }
    pub fn text(&self) -> String {
        let mut s = format!("{} {}\n", self.nl, self.nr);
        for r in 0..self.nr {
            for l in 0..self.nl {
                s.push_str(&format!("{} {} {}\n", l, r, self.cells[r * self.nl + l]));
            }
        }
        s
    }
    /// cost of connecting a left word with right-id `r` to a right word with left-id `l`
    pub fn cost(&self, r_of_left: usize, l_of_right: usize) -> i32 {
        // text line "a b c": a = right id of the left word (< num_left), b = left id of the right word
        self.cells[l_of_right * self.nl + r_of_left] as i32
    }
}

pub fn rand_word(rng: &mut Rng, pool: &[char], maxlen: usize) -> String {
    let n = rng.range(1, maxlen);
    (0..n).map(|_| *rng.pick(pool)).collect()
}

pub fn rand_text(rng: &mut Rng, pool: &[char], maxlen: usize) -> String {
    let n = rng.below(maxlen + 1);
    (0..n).map(|_| *rng.pick(pool)).collect()
}

/// A random lexicon: prefix families, homographs, non-indexed rows, well-formed A/B splits,
/// dictionary forms, equal/different forms.
pub struct LexGen {
    pub rows: Vec<Row>,
    pub pos: Vec<[String; 6]>,
    pub n: usize,
}

pub fn gen_lexicon(rng: &mut Rng, n_ids: usize, size: usize, extreme_cost: bool, with_splits: bool) -> LexGen {
    let pos = default_pos();
    let mut rows: Vec<Row> = vec![];
    let id = |rng: &mut Rng| rng.below(n_ids) as i32;
    let cost = |rng: &mut Rng| -> i32 {
        if extreme_cost && rng.chance(1, 5) { *rng.pick(&[32767, -32768, 32766, -1]) } else { rng.below(9000) as i32 - 500 }
    };
    // a pool restricted to a few characters makes overlaps and shared prefixes frequent
    let k = rng.range(3, 7);
    let pool: Vec<char> = (0..k).map(|_| *rng.pick(WORD_CHARS)).collect();
    // every POS appears at least once, the OOV noun POS first
    for p in 0..pos.len() {
        let w = rand_word(rng, &pool, 2);
        let (l, r, c) = (id(rng), id(rng), cost(rng));
        rows.push(Row::simple(&w, l, r, c, p));
    }
    while rows.len() < size {
        let kind = rng.below(10);
        let mut row = if kind < 3 && !rows.is_empty() {
            // extend an existing surface: keys that are prefixes of others
            let base = rng.pick(&rows).surface.clone();
            let w = format!("{}{}", base, rand_word(rng, &pool, 2));
            Row::simple(&w, id(rng), id(rng), cost(rng), rng.below(pos.len()))
        } else if kind < 5 && !rows.is_empty() {
            // homograph
            let base = rng.pick(&rows).surface.clone();
            Row::simple(&base, id(rng), id(rng), cost(rng), rng.below(pos.len()))
        } else {
            let w = rand_word(rng, &pool, 3);
            Row::simple(&w, id(rng), id(rng), cost(rng), rng.below(pos.len()))
        };
        if rng.chance(1, 10) {
            row.left = -1;
            row.right = -1;
        }
        if rng.chance(1, 4) { row.reading = rand_word(rng, &['ア', 'イ', 'ウ', 'カ'], 4); }
        if rng.chance(1, 5) { row.norm = rand_word(rng, &pool, 3); }
        if rng.chance(1, 6) { row.headword = rand_word(rng, &pool, 3); if rng.chance(1, 2) { row.norm = row.headword.clone(); } }
        if rng.chance(1, 6) { row.syn = join((0..rng.range(1, 3)).map(|_| rng.below(100000)), "/"); }
        rows.push(row);
    }
    if with_splits {
        let extra = rng.range(1, 1 + size / 4);
        for _ in 0..extra {
            let nparts = rng.range(2, 3);
            let parts: Vec<usize> = (0..nparts).map(|_| rng.below(rows.len())).collect();
            let mut surface: String = parts.iter().map(|&i| rows[i].surface.clone()).collect();
            // one declaration in five is ill-formed: the units are together SHORTER (the key has a tail no unit covers) or
            // LONGER than the key; the analysis must still partition the text (last unit ends with the word, units are clamped)
            match rng.below(10) {
                0 => surface.push_str(&rand_word(rng, &pool, 2)),
                1 => { if surface.chars().count() > 1 { surface.pop(); } }
                _ => {}
            }
            let mut row = Row::simple(&surface, id(rng), id(rng), cost(rng), rng.below(pos.len()));
            let ids = join(parts.iter(), "/");
            match rng.below(3) {
                0 => { row.mode = 'B'; row.split_a = ids; }
                1 => { row.mode = 'C'; row.split_a = ids.clone(); row.split_b = ids; }
                _ => {
                    row.mode = 'C';
                    row.split_a = ids;
                    // B split: the first two units as one word if such a word exists, else none
                }
            }
            if rng.chance(1, 3) { row.wstruct = row.split_a.clone(); }
            rows.push(row);
        }
    }
    // dictionary forms point to an arbitrary row (system dictionaries only)
    let n = rows.len();
    for i in 0..n {
        if rng.chance(1, 8) {
            rows[i].dic_form = rng.below(n).to_string();
        }
    }
    LexGen { rows, pos, n: n_ids }
}

pub fn build_system(csv: &[u8], matrix: &[u8]) -> Result<Vec<u8>, String> {
    let r = catch(|| -> Result<Vec<u8>, String> {
        let mut b = DictBuilder::new_system();
        b.set_compile_time(std::time::UNIX_EPOCH + std::time::Duration::from_secs(1_600_000_000));
        b.set_description("verif");
        b.read_conn(matrix).map_err(|e| format!("conn: {:?}", e))?;
        b.read_lexicon(csv).map_err(|e| format!("lexicon: {:?}", e))?;
        b.resolve().map_err(|e| format!("resolve: {:?}", e))?;
        let mut out = vec![];
        b.compile(&mut out).map_err(|e| format!("compile: {:?}", e))?;
        Ok(out)
    });
    match r {
        Ok(x) => x,
        Err(p) => Err(format!("PANIC {}", p)),
    }
}

pub fn build_user(system: &JapaneseDictionary, csv: &[u8]) -> Result<Vec<u8>, String> {
    let r = catch(|| -> Result<Vec<u8>, String> {
        let mut b = DictBuilder::new_user(system);
        b.set_compile_time(std::time::UNIX_EPOCH + std::time::Duration::from_secs(1_600_000_000));
        b.set_description("verif-user");
        b.read_lexicon(csv).map_err(|e| format!("lexicon: {:?}", e))?;
        b.resolve().map_err(|e| format!("resolve: {:?}", e))?;
        let mut out = vec![];
        b.compile(&mut out).map_err(|e| format!("compile: {:?}", e))?;
        Ok(out)
    });
    match r {
        Ok(x) => x,
        Err(p) => Err(format!("PANIC {}", p)),
    }
}

/// directory for the definition files a configuration refers to
pub struct Workdir {
    pub path: PathBuf,
}

impl Workdir {
    /// `char.def` = the shipped resources/char.def (all categories); `rewrite.def` = resources/rewrite.def
    pub fn new(tag: &str) -> Workdir {
        let w = Self::empty(tag);
        w.write("char.def", &std::fs::read_to_string("/repo/resources/char.def").unwrap());
        w.write("char_full.def", &std::fs::read_to_string("/repo/resources/char.def").unwrap());
        w.write("unk.def", &std::fs::read_to_string("/repo/sudachi/tests/resources/unk.def").unwrap());
        w.write("rewrite.def", &std::fs::read_to_string("/repo/resources/rewrite.def").unwrap());
        w
    }

    /// as the first generation of harness modules expects it: the test suite's char.def and rewrite.def
    pub fn new_legacy(tag: &str) -> Workdir {
        let w = Self::empty(tag);
        w.write("char.def", &std::fs::read_to_string("/repo/sudachi/tests/resources/char.def").unwrap());
        w.write("char_full.def", &std::fs::read_to_string("/repo/resources/char.def").unwrap());
        w.write("unk.def", &std::fs::read_to_string("/repo/sudachi/tests/resources/unk.def").unwrap());
        w.write("rewrite.def", &std::fs::read_to_string("/repo/sudachi/tests/resources/rewrite.def").unwrap());
        w
    }

    fn empty(tag: &str) -> Workdir {
        let root = std::env::var("VERIF_ROOT").unwrap_or_else(|_| "/verif".to_string());
        let path = PathBuf::from(format!("{}/.build/work/{}-{}", root, tag, std::process::id()));
        let _ = std::fs::remove_dir_all(&path);
        std::fs::create_dir_all(&path).unwrap();
        Workdir { path }
    }

    pub fn write(&self, name: &str, content: &str) {
        std::fs::write(self.path.join(name), content).unwrap();
    }
}

impl Drop for Workdir {
    fn drop(&mut self) {
        let _ = std::fs::remove_dir_all(&self.path);
    }
}

pub const OOV_POS_JSON: &str = r#"["名詞","普通名詞","一般","*","*","*"]"#;

pub fn simple_oov_json(left: i64, right: i64, cost: i64) -> String {
    format!(r#"{{"class":"com.worksap.nlp.sudachi.SimpleOovPlugin","oovPOS":{},"leftId":{},"rightId":{},"cost":{}}}"#, OOV_POS_JSON, left, right, cost)
}

/// configuration JSON; every list holds complete plugin objects
pub fn config_json(wd: &Workdir, input: &[String], oov: &[String], path_rewrite: &[String], conn: &[String]) -> String {
    config_json_cd(wd, "char.def", input, oov, path_rewrite, conn)
}

pub fn config_json_cd(wd: &Workdir, chardef: &str, input: &[String], oov: &[String], path_rewrite: &[String], conn: &[String]) -> String {
    format!(
        r#"{{"path":"{}","characterDefinitionFile":"{}","connectionCostPlugin":[{}],"inputTextPlugin":[{}],"oovProviderPlugin":[{}],"pathRewritePlugin":[{}]}}"#,
        wd.path.display(), chardef, conn.join(","), input.join(","), oov.join(","), path_rewrite.join(",")
    )
}

pub fn load(cfg_json: &str, system: Vec<u8>, users: Vec<Vec<u8>>) -> Result<JapaneseDictionary, String> {
    let r = catch(|| -> Result<JapaneseDictionary, String> {
        let cfg = ConfigBuilder::from_bytes(cfg_json.as_bytes()).map_err(|e| format!("config: {:?}", e))?.build();
        let mut data = SudachiDicData::new(Storage::Owned(system));
        for u in users {
            data.add_user(Storage::Owned(u));
        }
        JapaneseDictionary::from_cfg_storage(&cfg, data).map_err(|e| format!("load: {:?}", e))
    });
    match r {
        Ok(x) => x,
        Err(p) => Err(format!("PANIC {}", p)),
    }
}

#[derive(Clone, Debug, PartialEq)]
pub struct Tok {
    pub begin: usize,
    pub end: usize,
    pub begin_c: usize,
    pub end_c: usize,
    pub surface: String,
    pub word_id: u32,
    pub dict_id: i32,
    pub pos_id: u16,
    pub pos: Vec<String>,
    pub norm: String,
    pub dict_form: String,
    pub reading: String,
    pub total_cost: i32,
    pub is_oov: bool,
    pub wi_surface: String,
    pub head_len: usize,
    pub a_split: Vec<u32>,
    pub b_split: Vec<u32>,
    pub wstruct: Vec<u32>,
    pub syn: Vec<u32>,
}

pub fn toks_of<D: std::ops::Deref<Target = JapaneseDictionary> + Clone>(ml: &MorphemeList<D>) -> Vec<Tok> {
    ml.iter()
        .map(|m| Tok {
            begin: m.begin(),
            end: m.end(),
            begin_c: m.begin_c(),
            end_c: m.end_c(),
            surface: m.surface().to_string(),
            word_id: m.word_id().as_raw(),
            dict_id: m.dictionary_id(),
            pos_id: m.part_of_speech_id(),
            pos: m.part_of_speech().to_vec(),
            norm: m.normalized_form().to_string(),
            dict_form: m.dictionary_form().to_string(),
            reading: m.reading_form().to_string(),
            total_cost: m.total_cost(),
            is_oov: m.is_oov(),
            wi_surface: m.get_word_info().surface().to_string(),
            head_len: m.get_word_info().head_word_length(),
            a_split: m.get_word_info().a_unit_split().iter().map(|w| w.as_raw()).collect(),
            b_split: m.get_word_info().b_unit_split().iter().map(|w| w.as_raw()).collect(),
            wstruct: m.get_word_info().word_structure().iter().map(|w| w.as_raw()).collect(),
            syn: m.get_word_info().synonym_group_ids().to_vec(),
        })
        .collect()
}

/// tokenise with a fresh stateful tokenizer; Err carries the error class
pub fn tokenize(dic: &JapaneseDictionary, text: &str, mode: Mode) -> Result<Result<Vec<Tok>, String>, String> {
    catch(|| {
        let mut tok = StatefulTokenizer::new(dic, mode);
        tok.reset().push_str(text);
        match tok.do_tokenize() {
            Err(e) => Err(err_class(&e)),
            Ok(()) => {
                let mut ml = MorphemeList::empty(dic);
                match ml.collect_results(&mut tok) {
                    Err(e) => Err(err_class(&e)),
                    Ok(()) => Ok(toks_of(&ml)),
                }
            }
        }
    })
}

pub fn err_class(e: &SudachiError) -> String {
    match e {
        SudachiError::InputTooLong(_, _) => "TooLong".into(),
        SudachiError::EosBosDisconnect => "Disconnect".into(),
        other => {
            let s = format!("{:?}", other);
            format!("Other({})", s.chars().take(60).collect::<String>())
        }
    }
}

pub fn mode_of(i: usize) -> Mode {
    match i % 3 { 0 => Mode::C, 1 => Mode::A, _ => Mode::B }
}

pub fn cps(s: &str) -> String {
    join(s.chars().map(|c| c as u32), ",")
}
