//! C01: morphemes partition the original text byte for byte (whole tokenizer, random worlds).
use crate::common::*;
use crate::dict::*;
use crate::world::*;
use sudachi::analysis::stateful_tokenizer::StatefulTokenizer;
use sudachi::prelude::*;
use sudachi::analysis::Mode;

pub const CASES_PER_WORLD: usize = 25;

/// deterministic world for a case index
pub fn world_for(seed: u64, prop: &str, widx: usize, opts: &WorldOpts) -> Result<World, String> {
    let mut rng = Rng::for_case(seed ^ 0x5151_5151, widx);
    gen_world(&mut rng, &format!("{}-w{}", prop, widx), opts)
}

pub struct Analysed {
    pub tables: sudachi::input_text::VerifTables,
    /// (begin, end, surface, begin_c, end_c, surface offset in the original, node range)
    pub morphs: Vec<(usize, usize, String, usize, usize, usize, (usize, usize, usize, usize))>,
    pub toks: Vec<Tok>,
}

pub fn analyse(dic: &sudachi::dic::dictionary::JapaneseDictionary, text: &str, mode: sudachi::analysis::Mode) -> Result<Result<Analysed, String>, String> {
    analyse_after(dic, &[], text, mode)
}

/// the analysis of `text` on a tokenizer and a result list that were USED before, the way a long-lived analyser is
/// (reset / fill / do_tokenize / collect_results for every earlier text; the tokenizer and the list swap their input
/// buffers on every call, so the text meets a buffer that held the text analysed two calls earlier); failures of the
/// warm-up calls are ignored, they are part of the history
pub fn analyse_after(dic: &sudachi::dic::dictionary::JapaneseDictionary, warm: &[String], text: &str, mode: sudachi::analysis::Mode) -> Result<Result<Analysed, String>, String> {
    analyse_with(dic, warm, text, mode, None)
}

/// the same with a restricted word-info field subset (`set_subset`) installed after creation
pub fn analyse_with(dic: &sudachi::dic::dictionary::JapaneseDictionary, warm: &[String], text: &str, mode: sudachi::analysis::Mode, subset: Option<sudachi::dic::subset::InfoSubset>) -> Result<Result<Analysed, String>, String> {
    catch(|| {
        let mut tok = StatefulTokenizer::new(dic, mode);
        if let Some(s) = subset { tok.set_subset(s); }
        let mut ml = MorphemeList::empty(dic);
        for wt in warm {
            tok.reset().push_str(wt);
            if tok.do_tokenize().is_ok() {
                let _ = ml.collect_results(&mut tok);
            }
        }
        tok.reset().push_str(text);
        if let Err(e) = tok.do_tokenize() {
            return Err(err_class(&e));
        }
        let tables = tok.verif_input().verif_tables();
        if let Err(e) = ml.collect_results(&mut tok) {
            return Err(err_class(&e));
        }
        let whole = ml.surface();
        let base = whole.as_ptr() as usize;
        let mut morphs = vec![];
        for m in ml.iter() {
            let s = m.surface();
            let off = (s.as_ptr() as usize).wrapping_sub(base);
            morphs.push((m.begin(), m.end(), s.to_string(), m.begin_c(), m.end_c(), off, m.verif_node_range()));
        }
        drop(whole);
        let toks = toks_of(&ml);
        Ok(Analysed { tables, morphs, toks })
    })
}

/// the partition oracle of C01 on the implementation's output
pub fn partition_oracle(text: &str, a: &Analysed) -> Option<(String, String)> {
    let ms = &a.morphs;
    if ms.is_empty() {
        if !a.tables.modified.is_empty() {
            return Some(("empty".into(), "no morphemes although the normalised text is not empty".into()));
        }
        return None;
    }
    if a.tables.modified.is_empty() {
        return Some(("nonempty".into(), "morphemes reported for an empty normalised text".into()));
    }
    if ms[0].0 != 0 { return Some(("first".into(), format!("first morpheme begins at {}", ms[0].0))); }
    let mut concat = String::new();
    for (i, m) in ms.iter().enumerate() {
        if m.0 > m.1 { return Some(("order".into(), format!("morpheme {} has begin {} > end {}", i, m.0, m.1))); }
        if i > 0 && ms[i - 1].1 != m.0 { return Some(("abut".into(), format!("morpheme {} begins at {} but the previous one ended at {}", i, m.0, ms[i - 1].1))); }
        if m.1 > text.len() || !text.is_char_boundary(m.0) || !text.is_char_boundary(m.1) {
            return Some(("boundary".into(), format!("morpheme {} range {}..{} is not on character boundaries of the input", i, m.0, m.1)));
        }
        if &text[m.0..m.1] != m.2 { return Some(("surface".into(), format!("morpheme {} surface {:?} != input[{}..{}] {:?}", i, m.2, m.0, m.1, &text[m.0..m.1]))); }
        concat.push_str(&m.2);
    }
    if ms[ms.len() - 1].1 != text.len() { return Some(("last".into(), format!("last morpheme ends at {} of {}", ms[ms.len() - 1].1, text.len()))); }
    if concat != text { return Some(("concat".into(), "concatenated surfaces differ from the input".into())); }
    None
}

/// how the tokenizer of a case is set up: the field subset and the split mode can be installed in either order
/// (`set_mode` after `set_subset` does not re-normalise the subset: the split stage must still find `head_word_length`)
#[derive(Clone, Copy, Debug)]
pub enum Setup {
    /// `StatefulTokenizer::new(dic, mode)`, all fields
    New,
    /// `new(dic, C)`, `set_subset(s)`, `set_mode(mode)`
    SubsetThenMode(sudachi::dic::subset::InfoSubset),
    /// `new(dic, mode)`, `set_subset(s)`
    ModeThenSubset(sudachi::dic::subset::InfoSubset),
}

/// outcome of one staged analysis: a panic while TOKENISING is C03's clause (counted, not judged here), a panic of an
/// ACCESSOR of a returned morpheme (`begin/end/begin_c/end_c/surface`, `MorphemeList::surface`) breaks C01
pub enum Staged {
    TokenizePanic(String),
    Rejected(String),
    AccessorPanic(String, String, Vec<usize>),
    Done(Analysed),
}

pub fn analyse_staged(dic: &sudachi::dic::dictionary::JapaneseDictionary, warm: &[String], text: &str, mode: sudachi::analysis::Mode, setup: Setup) -> Staged {
    let r = catch(|| {
        let mut tok = match setup {
            Setup::New => StatefulTokenizer::new(dic, mode),
            Setup::SubsetThenMode(s) => { let mut t = StatefulTokenizer::new(dic, Mode::C); t.set_subset(s); t.set_mode(mode); t }
            Setup::ModeThenSubset(s) => { let mut t = StatefulTokenizer::new(dic, mode); t.set_subset(s); t }
        };
        let mut ml = MorphemeList::empty(dic);
        for wt in warm {
            tok.reset().push_str(wt);
            if tok.do_tokenize().is_ok() {
                let _ = ml.collect_results(&mut tok);
            }
        }
        tok.reset().push_str(text);
        if let Err(e) = tok.do_tokenize() {
            return Err(err_class(&e));
        }
        let tables = tok.verif_input().verif_tables();
        if let Err(e) = ml.collect_results(&mut tok) {
            return Err(err_class(&e));
        }
        Ok((ml, tables))
    });
    let (ml, tables) = match r {
        Err(p) => return Staged::TokenizePanic(p),
        Ok(Err(e)) => return Staged::Rejected(e),
        Ok(Ok(x)) => x,
    };
    let t2 = (tables.modified.clone(), tables.m2o.clone());
    match catch(|| {
        let whole = ml.surface();
        let base = whole.as_ptr() as usize;
        let mut morphs = vec![];
        for m in ml.iter() {
            let s = m.surface();
            let off = (s.as_ptr() as usize).wrapping_sub(base);
            morphs.push((m.begin(), m.end(), s.to_string(), m.begin_c(), m.end_c(), off, m.verif_node_range()));
        }
        drop(whole);
        morphs
    }) {
        Err(p) => Staged::AccessorPanic(p, t2.0, t2.1),
        // the word-info side (`toks`) is not C01's subject and is not defined for every restricted subset
        Ok(morphs) => Staged::Done(Analysed { tables, morphs, toks: vec![] }),
    }
}

/// the path BEFORE `split_path`, observed on a mode-C analysis of the same text by a NEW tokenizer with the SAME field subset
/// (the path-rewrite plugins read `pos_id` / `normalized_form` of the loaded word infos, so the subset decides what they join):
/// per node its character range and the key lengths (`head_word_length`, read from the lexicon with all fields) of the units
/// the word declares for `mode`; nodes made by a plugin and OOV nodes declare none
pub fn reference_path(dic: &sudachi::dic::dictionary::JapaneseDictionary, text: &str, mode: sudachi::analysis::Mode, setup: Setup) -> Option<Vec<(usize, usize, Vec<usize>)>> {
    catch(|| {
        let mut tok = StatefulTokenizer::new(dic, Mode::C);
        // the fields the main analysis loads: its subset plus the split list of its mode (the reader stores the fixed-width fields
        // `head_word_length`, `pos_id`, `dictionary_form_word_id` whenever it walks past them, so asking for the split list of mode A/B
        // makes `pos_id` visible to the numeral joiner even when the caller's subset does not name it)
        let split = match mode { Mode::A => sudachi::dic::subset::InfoSubset::SPLIT_A, Mode::B => sudachi::dic::subset::InfoSubset::SPLIT_B, Mode::C => sudachi::dic::subset::InfoSubset::empty() };
        match setup { Setup::New => {}, Setup::SubsetThenMode(s) | Setup::ModeThenSubset(s) => { tok.set_subset(s | split); } }
        tok.reset().push_str(text);
        if tok.do_tokenize().is_err() { return None; }
        let mut ml = MorphemeList::empty(dic);
        if ml.collect_results(&mut tok).is_err() { return None; }
        let mut out = vec![];
        for m in ml.iter() {
            let r = m.verif_node_range();
            let mut units = vec![];
            if !m.is_oov() && mode != Mode::C {
                let wid = m.word_id();
                if let Ok(Ok(ids)) = catch(|| dic.lexicon().get_word_info(wid).map(|wi| match mode { Mode::A => wi.a_unit_split().to_vec(), _ => wi.b_unit_split().to_vec() })) {
                    for w in ids {
                        units.push(dic.lexicon().get_word_info(w).ok()?.head_word_length());
                    }
                }
            }
            out.push((r.0, r.1, units));
        }
        Some(out)
    }).ok().flatten()
}

/// which `NodeSplitIterator::next` the linked tree has (textual probe, as C03/C09 do)
fn split_variant() -> &'static str {
    static P: std::sync::OnceLock<bool> = std::sync::OnceLock::new();
    if *P.get_or_init(|| {
        let p = format!("{}/src/analysis/node.rs", crate::c07::repo_sudachi_dir());
        std::fs::read_to_string(p).map(|s| s.contains(".min(self.byte_end as usize)")).unwrap_or(false)
    }) { "d6fix" } else { "cur" }
}

/// the tables of a buffer that holds `q` unchanged (what `MorphemeList::lookup` builds: no input-text plugin runs)
fn ident_tables(q: &str) -> sudachi::input_text::VerifTables {
    sudachi::input_text::VerifTables {
        original: q.to_string(), modified: q.to_string(), modified_2_len: 0, m2o: (0..=q.len()).collect(), m2o_2: vec![], mod_chars: q.chars().collect(),
        mod_c2b: vec![], mod_b2c: vec![], mod_bow: vec![], mod_cat: vec![], mod_cat_continuity: vec![], replaces_len: 0, state: 2,
    }
}

fn show_path(p: &[(usize, usize, Vec<usize>)]) -> String {
    p.iter().map(|(b, e, u)| format!("{}:{}:{}", b, e, if u.is_empty() { "-".to_string() } else { join(u.iter(), "+") })).collect::<Vec<_>>().join(";")
}

/// answer of a `part` line from the accessors of the real morphemes
fn part_answer(a: &Analysed) -> String {
    format!(
        "ok nodes={} acc={} surf={}",
        a.morphs.iter().map(|m| format!("{}:{}:{}:{}", m.6 .0, m.6 .1, m.6 .2, m.6 .3)).collect::<Vec<_>>().join(";"),
        a.morphs.iter().map(|m| format!("{}:{}:{}:{}:{}:{}", m.0, m.1, m.3, m.4, m.5, m.5 + m.2.len())).collect::<Vec<_>>().join(";"),
        hex(a.morphs.iter().map(|m| m.2.clone()).collect::<String>().as_bytes())
    )
}

// ------------------------------------------------------------------------------------------------
// op `stages`: the input-text plugin stage plugin by plugin (the UTF-8 invariant of `Proofs/PartitionUtf8.lean` and the
// byte edits of the bundled plugins, `TotalIO.plugin`).  The `ReplaceOp`s of an `InputEditor` are private, so the real
// edit list is observed through everything `resolve_edits` lets out: the NUMBER of edits (field `replaces_len` of the
// `verif_tables` hook, read inside `with_editor` after `rewrite_impl` returned), the text and the offset map after the commit,
// and the offset map the SAME plugin writes when it runs alone on a new buffer holding the text it saw (identity map:
// first byte of a replacement -> start, later bytes -> end, copied bytes -> themselves; this pair determines what the edit
// list does on every map).

/// the input-text plugins of a world as C07's configuration record (what a `stages` line ships to the model)
pub fn world_plugin_cfg(w: &World) -> Option<crate::c07::Cfg> {
    let v: serde_json::Value = serde_json::from_str(&w.cfg).ok()?;
    let arr = v.get("inputTextPlugin")?.as_array()?.clone();
    let def_text = std::fs::read_to_string(w.wd.path.join("rewrite.def")).ok()?;
    let chars_of = |x: Option<&serde_json::Value>| -> Vec<char> {
        x.and_then(|a| a.as_array()).map(|a| a.iter().filter_map(|s| s.as_str()).flat_map(|s| s.chars()).collect()).unwrap_or_default()
    };
    let mut cfg = crate::c07::Cfg { pipe: vec![], def_text: def_text.clone(), table: None, marks: vec!['ー'], rep: None, yl: vec!['('], yr: vec![')'], yn: 1, pool: vec![] };
    // every character of the table (keys, values, exempt characters) needs its Unicode facts on the line
    let table_chars: String = def_text.lines().filter(|l| !l.trim_start().starts_with('#')).flat_map(|l| l.chars()).filter(|c| !c.is_whitespace()).collect();
    cfg.table = Some((vec![], vec![(table_chars, String::new())]));
    for pl in &arr {
        let class = pl.get("class")?.as_str()?;
        if class.ends_with("DefaultInputTextPlugin") { cfg.pipe.push('D'); }
        else if class.ends_with("ProlongedSoundMarkPlugin") {
            cfg.pipe.push('P');
            cfg.marks = chars_of(pl.get("prolongedSoundMarks"));
            cfg.rep = pl.get("replacementSymbol").and_then(|r| r.as_str()).map(|r| r.to_string());
        }
        else if class.ends_with("IgnoreYomiganaPlugin") {
            cfg.pipe.push('Y');
            cfg.yl = chars_of(pl.get("leftBrackets"));
            cfg.yr = chars_of(pl.get("rightBrackets"));
            cfg.yn = pl.get("maxYomiganaLength").and_then(|n| n.as_u64()).unwrap_or(4) as usize;
        }
        else { return None; }
    }
    Some(cfg)
}

pub struct StageObs {
    /// number of `ReplaceOp`s the plugin recorded
    pub n: usize,
    pub cur: Vec<u8>,
    pub m2o: Vec<usize>,
    /// the offset map of the plugin alone over the identity map of the text it saw (None: a new buffer refuses that text)
    pub alone: Option<Vec<usize>>,
}

/// reset / push_str / start_build / every plugin with its commit on a new buffer; Err = a panic
pub fn real_stages(dic: &sudachi::dic::dictionary::JapaneseDictionary, text: &str) -> Result<(Vec<StageObs>, String), String> {
    use sudachi::input_text::InputBuffer;
    use sudachi::analysis::stateless_tokenizer::DictionaryAccess;
    catch(|| {
        let mut out = vec![];
        let mut buf = InputBuffer::new();
        buf.reset().push_str(text);
        if let Err(e) = buf.start_build() { return (out, err_class(&e)); }
        for p in dic.input_text_plugins().iter() {
            let before = buf.current().to_string();
            // what `InputTextPlugin::rewrite` does, with a look at the recorded edits before the commit
            if p.uses_chars() { buf.refresh_chars(); }
            let n = std::cell::Cell::new(0usize);
            #[allow(deprecated)]
            let r = buf.with_editor(|b, e| { let e = p.rewrite_impl(b, e)?; n.set(b.verif_tables().replaces_len); Ok(e) });
            if let Err(e) = r { return (out, err_class(&e)); }
            let alone = {
                let mut b2 = InputBuffer::new();
                b2.reset().push_str(&before);
                if b2.start_build().is_err() || p.rewrite(&mut b2).is_err() { None } else { Some(b2.verif_tables().m2o) }
            };
            let t = buf.verif_tables();
            out.push(StageObs { n: n.get(), cur: buf.current().as_bytes().to_vec(), m2o: t.m2o, alone });
        }
        (out, "done".to_string())
    })
}

fn stages_answer(st: &[StageObs], end: &str) -> String {
    format!("ok {} end={}",
        st.iter().map(|s| format!("{}/{}/{}/{}/{}", s.n, hex(&s.cur), join(s.m2o.iter(), ","),
            match &s.alone { Some(m) => join(m.iter(), ","), None => "-".to_string() },
            if std::str::from_utf8(&s.cur).is_ok() { "utf8" } else { "NOT-UTF8" })).collect::<Vec<_>>().join(";"),
        if end == "done" { "done".to_string() } else if end.contains("TooLong") || end.contains("InputTooLong") { "TooLong".to_string() } else { format!("err:{}", end) })
}

fn width_counters(run: &mut Run, text: &str) {
    let mut w = [0u64; 5];
    for c in text.chars() { w[c.len_utf8()] += 1; }
    for k in 1..5 { if w[k] > 0 { run.bump(&format!("text:has-{}-byte-characters", k)); } }
    run.bump(&format!("text:bytes:{}", match text.len() { 0 => "0", 1..=3 => "1-3", 4..=15 => "4-15", 16..=63 => "16-63", 64..=255 => "64-255", _ => "256+" }));
    if text.chars().map(|c| c.len_utf8()).collect::<std::collections::BTreeSet<_>>().len() >= 3 { run.bump("text:mixes-3+-widths"); }
}

/// texts every world analyses first: each input-text plugin alone and stacked, 1-/2-/3-/4-byte characters next to each other,
/// NFKC expansions and contractions, deletions at the beginning / in the middle / at the end, texts that normalise to nothing
pub const DIRECTED: &[&str] = &[
    "",
    "㍿(かぶ)12,345ァアー",
    "ーーー",                              // only prolonged sound marks: deleted completely where the plugin replaces runs by ""
    "〜～ーあ〜～ー",                       // runs at both ends
    "東（とう）京（きょう）都",             // two readings to delete, brackets of 3 bytes
    "ＡＢＣーーかもしれない",               // width-changing NFKC + a later plugin's edit (seeded C01a)
    "ｽｰｰﾊﾟｰ",                              // half-width katakana + voiced mark + doubled mark
    "aé東𠮷👍🏻İǆ㌔\u{0301}",                // 1-, 2-, 3-, 4-byte characters, lower-casing to two scalars, expansion x3
    "\u{FDFA}1",                            // NFKC x18
    "東京都東京都京都東京",                  // words with A/B units, several times
    "12,345.67円と一二三千十",              // numerals for the numeral joiner
    "アイウaアイウ",                        // katakana runs for the OOV joiner
];

pub fn run(run: &mut Run) {
    use sudachi::dic::subset::InfoSubset;
    run.rule = "random worlds (lexicon with prefix families/homographs/splits incl. ill-formed declarations, random square and non-square matrix, random input-text \
(incl. a deleting prolonged-sound-mark plugin), OOV and path-rewrite plugin stacks, 0-2 user dictionaries, every 12th world 14 = the maximum) x 12 directed texts per world + random texts over word characters and \
normalisation/OOV-relevant characters of 1-4 bytes x modes A/B/C x tokenizer set-up (all fields | set_subset(restricted) then set_mode | set_mode then set_subset) x history (a new tokenizer, or one that analysed 1-4 other \
texts of other lengths before) + dictionary look-ups (MorphemeList::lookup, split_into of every found word); non-trivial = accepted, at least 2 morphemes and the normalised text differs from the input or a \
morpheme comes from a split/merge; distinct by line".into();
    let n = run.opts.count;
    let mut cur_world: Option<(usize, Result<World, String>)> = None;
    // per world: C07's record of its input-text plugins, the characters of that configuration, the set-up tokens of a `stages` line
    let mut cur_plug: Option<(usize, Option<(crate::c07::Cfg, std::collections::BTreeSet<char>, String)>)> = None;
    run.bump(&format!("model-variant:commit={}", crate::c03::commit_variant()));
    for idx in 0..n {
        if !run.wants(idx) { continue; }
        let widx = idx / CASES_PER_WORLD;
        if cur_world.as_ref().map(|w| w.0) != Some(widx) {
            cur_world = None; // drop the previous work directory first
            // every 12th world is loaded with the maximum number of dictionaries; two worlds in three declare units that are unrelated words
            // every second world adds keys to rewrite.def that texts WITHOUT upper-case / non-NFKC characters contain (such texts take
            // `replace_fast`; no key of the shipped table can match there): longer, shorter and equal-width replacements, a key that is a
            // prefix of another one, 1-byte and 3-byte characters
            let extra = if widx % 2 == 1 { Some("京都 きょうと\n京 ｹｲ\nイウ ユ\n円 yen\n, 、\n東 ひがし\n12 十二\nかも duck\nab x\n".to_string()) } else { None };
            let opts = WorldOpts { users_exact: if widx % 12 == 5 { Some(14) } else { None }, unrelated_units: widx % 3 != 0, rewrite_extra: extra, ..WorldOpts::default() };
            cur_world = Some((widx, world_for(run.opts.seed, &run.prop.clone(), widx, &opts)));
        }
        let w = match &cur_world.as_ref().unwrap().1 {
            Ok(w) => w,
            Err(e) => {
                run.bump(&format!("world-error:{}", e.chars().take(50).collect::<String>()));
                continue;
            }
        };
        if cur_plug.as_ref().map(|p| p.0) != Some(widx) {
            let pc = world_plugin_cfg(w).map(|c7| {
                let chars = crate::c07::cfg_chars(&c7);
                let toks = crate::c07::setup_payload(&c7, crate::c07::impl_earliest()).replace(" def=", " rwdef=");
                (c7, chars, toks)
            });
            if pc.is_none() { run.bump("stages:world-configuration-not-representable"); }
            cur_plug = Some((widx, pc));
        }
        let mut rng = Rng::for_case(run.opts.seed, idx);
        let k = idx % CASES_PER_WORLD;
        let split_rows: Vec<&Row> = w.lex.rows.iter().filter(|r| r.indexed() && (r.split_a != "*" || r.split_b != "*")).collect();
        let text = if k < DIRECTED.len() { DIRECTED[k].to_string() }
            else if k % 3 == 0 && !split_rows.is_empty() {
                // words that declare A/B units (well-formed or not), between other material: the split stage is reached only when
                // such a word is on the best path
                run.bump("text:built-around-words-with-split-declarations");
                let mut s = String::new();
                for _ in 0..rng.range(1, 3) {
                    if rng.chance(1, 2) { s.push_str(&gen_text(&mut rng, w, 3)); }
                    s.push_str(&rng.pick(&split_rows).surface);
                }
                if rng.chance(1, 2) { s.push_str(&gen_text(&mut rng, w, 3)); }
                s
            }
            else if k == CASES_PER_WORLD - 1 { run.bump("text:long"); let ln = 40 + rng.below(120); gen_text(&mut rng, w, ln) }
            else if k == CASES_PER_WORLD - 2 && idx / CASES_PER_WORLD % 4 == 0 {
                // beyond the byte limit (49149) but few code points: more than 65535 bytes of 3- and 4-byte characters no plugin
                // edits. The limit is a BYTE limit because morphemes carry u16 byte offsets: such a text must be refused - an
                // analyser that accepts it reports offsets modulo 65536
                run.bump("text:over-byte-limit-few-codepoints");
                let head = if rng.chance(1, 2) { "あ".repeat(21846 + rng.below(40)) } else { "𠮷".repeat(16390 + rng.below(40)) };
                format!("{}{}", head, gen_text(&mut rng, w, 6))
            }
            else if k == CASES_PER_WORLD - 3 && widx % 4 == 1 {
                // 2000+ ligatures of 3 bytes that NFKC turns into 33 bytes each: the default plugin's batch would give more than
                // 65535 bytes and its commit is refused (`InputTooLong` out of the plugin stage); without that plugin the text passes
                run.bump("text:nfkc-expansion-beyond-65535-bytes");
                format!("{}{}", "\u{FDFA}".repeat(2000 + rng.below(40)), gen_text(&mut rng, w, 6))
            }
            else { gen_text(&mut rng, w, 14) };
        if k < DIRECTED.len() { run.bump("text:directed"); }
        let mode = mode_of(rng.below(3));
        for d in &w.desc { run.bump(d); }
        width_counters(run, &text);
        // two cases in three run on a tokenizer + result list with a history of 1..4 earlier texts of other lengths
        let mut warm: Vec<String> = vec![];
        if idx % 3 != 0 {
            for _ in 0..1 + rng.below(4) {
                warm.push(match rng.below(4) { 0 => "ＡＢＣ１２３".to_string(), 1 => gen_text(&mut rng, w, 30), 2 => gen_text(&mut rng, w, 4), _ => gen_text(&mut rng, w, 14) });
            }
        }
        run.bump(&format!("history:{}-earlier-texts", warm.len()));
        // one case in three restricts the word-info fields; none of the subsets asks for SURFACE or HEAD_WORD_LENGTH
        let restricted = [InfoSubset::empty(), InfoSubset::POS_ID, InfoSubset::NORMALIZED_FORM | InfoSubset::READING_FORM,
            InfoSubset::DIC_FORM_WORD_ID, InfoSubset::SPLIT_A, InfoSubset::SPLIT_B | InfoSubset::SYNONYM_GROUP_ID, InfoSubset::WORD_STRUCTURE];
        let setup = match rng.below(6) {
            0 => Setup::SubsetThenMode(*rng.pick(&restricted)),
            1 => Setup::ModeThenSubset(*rng.pick(&restricted)),
            _ => Setup::New,
        };
        run.bump(&format!("setup:{}:mode-{:?}", match setup { Setup::New => "all-fields".to_string(), Setup::SubsetThenMode(s) => format!("set_subset({:#x})-then-set_mode", s.bits()), Setup::ModeThenSubset(s) => format!("set_mode-then-set_subset({:#x})", s.bits()) }, mode));
        let ctx = |what: &str| format!("{} | text={:?} mode={:?} setup={:?} earlier texts on the same tokenizer={:?} world={}", what, text, mode, setup, warm, w.desc.join(" "));
        // the plugin stage, plugin by plugin, on a new bare buffer: model = Stages.trace (Total.rewriteInput with a record)
        let mut final_stage: Option<(Vec<u8>, Vec<usize>)> = None;
        if let (true, Some((_c7, chars0, setup_toks))) = (text.len() <= 8000, &cur_plug.as_ref().unwrap().1) {
            let mut chars = chars0.clone();
            chars.extend(text.chars());
            let uni = crate::c07::facts_for(&chars, &crate::c07::Classes { dic: &w.dic });
            let payload = format!("orig={} {} uni={} commit={}", hex(text.as_bytes()), setup_toks, uni, crate::c03::commit_variant());
            match real_stages(&w.dic, &text) {
                Err(p) => {
                    run.bump("stages:panic");
                    run.case(idx, "stages", &payload, "PANIC", true);
                    run.fail(idx, "c01:stage-panic", &ctx(&format!("an input-text plugin or its commit panicked on a bare buffer: {}", p.chars().take(160).collect::<String>())));
                }
                Ok((st, end)) => {
                    run.bump(&format!("stages:plugins-run:{}", st.len()));
                    run.bump(&format!("stages:end:{}", end.chars().take(12).collect::<String>()));
                    let nedits: usize = st.iter().map(|s| s.n).sum();
                    run.bump(&format!("stages:edits:{}", match nedits { 0 => "0", 1 => "1", 2..=4 => "2-4", _ => "5+" }));
                    if st.iter().filter(|s| s.n > 0).count() >= 2 { run.bump("stages:two-or-more-plugins-edit-the-text"); }
                    if st.iter().any(|s| s.n > 0 && s.cur.is_empty()) { run.bump("stages:a-plugin-deletes-the-whole-text"); }
                    run.case(idx, "stages", &payload, &stages_answer(&st, &end), nedits > 0);
                    for (i, s) in st.iter().enumerate() {
                        // the invariant of Proofs/PartitionUtf8.lean on the real buffer: valid UTF-8 after every plugin, map of length+1
                        if std::str::from_utf8(&s.cur).is_err() { run.fail(idx, "c01:stage-utf8", &ctx(&format!("the text after input-text plugin {} is not valid UTF-8: {}", i, hex(&s.cur)))); }
                        if s.m2o.len() != s.cur.len() + 1 { run.fail(idx, "c01:stage-map-length", &ctx(&format!("after plugin {}: {} map entries for {} bytes", i, s.m2o.len(), s.cur.len()))); }
                        if s.n == 0 && i > 0 && s.cur != st[i - 1].cur { run.fail(idx, "c01:stage-no-edit-changed-text", &ctx(&format!("plugin {} recorded no edit but the text changed", i))); }
                    }
                    if end == "done" {
                        final_stage = Some(match st.last() { Some(s) => (s.cur.clone(), s.m2o.clone()), None => (text.as_bytes().to_vec(), (0..=text.len()).collect()) });
                    }
                }
            }
        }
        match analyse_staged(&w.dic, &warm, &text, mode, setup) {
            Staged::TokenizePanic(p) => {
                run.bump("outcome:panic-while-tokenising(C03)");
                run.bump(&format!("panic:{}", p.chars().take(60).collect::<String>()));
            }
            Staged::Rejected(e) => run.bump(&format!("outcome:err:{}", e)),
            Staged::AccessorPanic(p, tm, tm2o) => {
                run.bump("outcome:accessor-panic");
                let payload = format!("orig={} cur={} m2o={} path=? split={}", hex(text.as_bytes()), hex(tm.as_bytes()), join(tm2o.iter(), ","), split_variant());
                run.case(idx, "part", &payload, "PANIC accessor", true);
                run.fail(idx, "c01:accessor-panic", &ctx(&format!("an accessor of a returned morpheme panicked: {}", p.chars().take(160).collect::<String>())));
            }
            Staged::Done(a) => {
                run.bump("outcome:ok");
                run.bump(&format!("morphemes:{}", a.morphs.len().min(12)));
                let changed = a.tables.modified != text;
                if changed { run.bump("normalisation-changed-text"); }
                if a.tables.modified.len() != text.len() { run.bump("normalisation-changed-byte-length"); }
                if a.tables.modified.is_empty() && !text.is_empty() { run.bump("normalised-text-empty(input not empty)"); }
                if a.morphs.iter().any(|m| m.0 == m.1) { run.bump("has-empty-range-morpheme"); }
                let payload = format!(
                    "orig={} cur={} m2o={} nodes={}",
                    hex(text.as_bytes()), hex(a.tables.modified.as_bytes()), join(a.tables.m2o.iter(), ","),
                    a.morphs.iter().map(|m| format!("{}:{}:{}:{}", m.6 .0, m.6 .1, m.6 .2, m.6 .3)).collect::<Vec<_>>().join(";")
                );
                let ans = format!(
                    "ok rc={} rb={} surf={}",
                    a.morphs.iter().map(|m| format!("{}:{}", m.0, m.1)).collect::<Vec<_>>().join(","),
                    a.morphs.iter().map(|m| format!("{}:{}", m.5, m.5 + m.2.len())).collect::<Vec<_>>().join(","),
                    hex(a.morphs.iter().map(|m| m.2.clone()).collect::<String>().as_bytes())
                );
                run.case(idx, "morph", &payload, &ans, a.morphs.len() >= 2 && changed);
                if let Some((k, what)) = partition_oracle(&text, &a) {
                    run.fail(idx, &format!("c01:{}", k), &ctx(&what));
                }
                // the text and the offset map the (possibly recycled) tokenizer analysed are those of the staged run on a new buffer
                if let Some((c, m)) = &final_stage {
                    if c.as_slice() != a.tables.modified.as_bytes() || m != &a.tables.m2o {
                        run.fail(idx, "c01:stages-vs-tokenizer", &ctx(&format!("the tokenizer analysed text {} / map {:?}, the plugins on a new buffer give {} / {:?}", hex(a.tables.modified.as_bytes()), a.tables.m2o, hex(c), m)));
                    }
                }
                // the same observation COMPUTED by the model from the path before split_path (resolve_best_path's byte ranges,
                // split_path / NodeSplitIterator::next, every accessor incl. begin_c/end_c)
                match reference_path(&w.dic, &text, mode, setup) {
                    None => run.bump("part:no-reference-path"),
                    Some(path) => {
                        let nsplit = path.iter().filter(|p| p.2.len() >= 2).count();
                        if nsplit > 0 { run.bump("part:path-has-a-word-that-is-split"); }
                        let cur_bytes = a.tables.modified.as_bytes();
                        let c2b: Vec<usize> = a.tables.modified.char_indices().map(|x| x.0).chain(std::iter::once(cur_bytes.len())).collect();
                        // ill-formed declaration on the path: the key lengths of the units do not add up to the word
                        if path.iter().any(|p| p.2.len() >= 2 && p.0 < c2b.len() && p.1 < c2b.len() && p.2.iter().sum::<usize>() != c2b[p.1] - c2b[p.0]) {
                            run.bump("part:path-has-an-ILL-FORMED-split-declaration");
                        }
                        if path.len() != a.morphs.len() { run.bump("part:split-changed-the-number-of-tokens"); }
                        let payload = format!("orig={} cur={} m2o={} path={} split={}", hex(text.as_bytes()), hex(cur_bytes), join(a.tables.m2o.iter(), ","), show_path(&path), split_variant());
                        run.case(idx, "part", &payload, &part_answer(&a), a.morphs.len() >= 2 && (changed || nsplit > 0));
                    }
                }
                // code points: begin_c/end_c count the characters of the ORIGINAL text before begin/end
                for (i, m) in a.morphs.iter().enumerate() {
                    if m.0 <= text.len() && m.1 <= text.len() && text.is_char_boundary(m.0) && text.is_char_boundary(m.1) {
                        if m.3 != text[..m.0].chars().count() || m.4 != text[..m.1].chars().count() {
                            run.fail(idx, "c01:codepoints", &ctx(&format!("morpheme {}: bytes {}..{} but begin_c/end_c = {}..{}", i, m.0, m.1, m.3, m.4)));
                        }
                    }
                }
            }
        }
        // dictionary look-ups: `MorphemeList::lookup` results are morphemes of the QUERY (begin 0, end = its length, surface = the query),
        // and `split_into` of a found word must tile it - on a new list, or on the list of an earlier analysis after clear()
        if idx % 5 == 2 {
            let query = if rng.chance(3, 4) { rng.pick(&w.lex.rows).surface.clone() } else { gen_text(&mut rng, w, 3) };
            let recycled = rng.chance(1, 2);
            let lsub = if rng.chance(1, 3) { *rng.pick(&restricted) | InfoSubset::SPLIT_A | InfoSubset::SPLIT_B } else { InfoSubset::all() };
            run.bump(&format!("lookup:{}-list", if recycled { "recycled" } else { "new" }));
            let r = catch(|| {
                let mut ml = MorphemeList::empty(&w.dic);
                if recycled {
                    let mut tok = StatefulTokenizer::new(&w.dic, mode);
                    tok.reset().push_str(&text);
                    if tok.do_tokenize().is_ok() { let _ = ml.collect_results(&mut tok); }
                    ml.clear();
                }
                let found = match ml.lookup(&query, lsub) { Ok(n) => n, Err(e) => return Err(err_class(&e)) };
                let mut res = vec![];
                for i in 0..ml.len() {
                    let m = ml.get(i);
                    let (b, e, bc, ec, s, nr) = (m.begin(), m.end(), m.begin_c(), m.end_c(), m.surface().to_string(), m.verif_node_range());
                    let mut subs = vec![];
                    for md in [Mode::A, Mode::B] {
                        let mut out = ml.empty_clone();
                        let did = m.split_into(md, &mut out).map_err(|e| err_class(&e))?;
                        let us: Vec<_> = out.iter().map(|u| (u.begin(), u.end(), u.surface().to_string(), u.begin_c(), u.end_c(), 0usize, u.verif_node_range())).collect();
                        let wi = m.get_word_info();
                        let ids: Vec<_> = match md { Mode::A => wi.a_unit_split().to_vec(), _ => wi.b_unit_split().to_vec() };
                        let mut units = vec![];
                        for wd in ids { units.push(w.dic.lexicon().get_word_info(wd).map_err(|e| err_class(&e))?.head_word_length()); }
                        subs.push((md, did, us, units));
                    }
                    res.push((b, e, bc, ec, s, nr, subs));
                }
                Ok((found, res))
            });
            match r {
                Err(p) => { run.bump("lookup:panic"); run.fail(idx, "c01:lookup-panic", &format!("lookup({:?}) or an accessor of its results panicked: {} | world={}", query, p.chars().take(160).collect::<String>(), w.desc.join(" "))); }
                Ok(Err(e)) => run.bump(&format!("lookup:err:{}", e)),
                Ok(Ok((found, res))) => {
                    // the buffer of a look-up runs no input-text plugin (reset, push_str, start_build, build): text = query, identity map
                    let ident: Vec<usize> = (0..=query.len()).collect();
                    run.bump(&format!("lookup:found-{}", found.min(4)));
                    for (i, (b, e, bc, ec, s, nr, subs)) in res.iter().enumerate() {
                        if *b != 0 || *e != query.len() || s != &query || *bc != 0 || *ec != query.chars().count() {
                            run.fail(idx, "c01:lookup-range", &format!("lookup({:?}) result {}: begin/end {}..{} begin_c/end_c {}..{} surface {:?} | world={}", query, i, b, e, bc, ec, s, w.desc.join(" ")));
                        }
                        for (md, did, us, units) in subs {
                            if !*did { continue; }
                            run.bump(&format!("lookup:split_into-{:?}-{}-units", md, us.len().min(4)));
                            if units.iter().sum::<usize>() != query.len() { run.bump("lookup:ILL-FORMED-split-declaration"); }
                            let a = Analysed { tables: ident_tables(&query), morphs: us.iter().map(|u| { let mut u = u.clone(); u.5 = u.0; u }).collect(), toks: vec![] };
                            if let Some((k, what)) = partition_oracle(&query, &a) {
                                run.fail(idx, &format!("c01:lookup-split:{}", k), &format!("split_into({:?}) of lookup({:?}) result {}: {} | world={}", md, query, i, what, w.desc.join(" ")));
                            }
                            // model: the path is the one found word
                            let payload = format!("orig={} cur={} m2o={} path={} split={}", hex(query.as_bytes()), hex(query.as_bytes()), join(ident.iter(), ","),
                                show_path(&[(nr.0, nr.1, if units.len() >= 2 { units.clone() } else { vec![] })]), split_variant());
                            // a word declaring ONE unit: split_into yields that unit on the whole range (the model keeps the node)
                            run.case(idx, "part", &payload, &part_answer(&a), us.len() >= 2);
                        }
                    }
                }
            }
        }
    }
}
