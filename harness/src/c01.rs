//! C01: morphemes partition the original text byte for byte (whole tokenizer, random worlds).
use crate::common::*;
use crate::dict::*;
use crate::world::*;
use sudachi::analysis::stateful_tokenizer::StatefulTokenizer;
use sudachi::prelude::*;

pub const CASES_PER_WORLD: usize = 25;

/// deterministic world for a case index
pub fn world_for(seed: u64, prop: &str, widx: usize, opts: &WorldOpts) -> Result<World, String> {
    let mut rng = Rng::for_case(seed ^ 0x5151_5151, widx);
    gen_world(&mut rng, &format!("{}-w{}", prop, widx), opts)
}

pub struct Analysed {
    pub tables: sudachi::input_text::VerifTables,
    /// (begin, end, surface, begin_c, end_c, surface offset in the original, node range)
    pub morphs: Vec<(usize, usize, String, usize, usize, usize, (usize, usize, usize, usize))>,
    pub toks: Vec<Tok>,
}

pub fn analyse(dic: &sudachi::dic::dictionary::JapaneseDictionary, text: &str, mode: sudachi::analysis::Mode) -> Result<Result<Analysed, String>, String> {
    analyse_after(dic, &[], text, mode)
}

/// the analysis of `text` on a tokenizer and a result list that were USED before, the way a long-lived analyser is
/// (reset / fill / do_tokenize / collect_results for every earlier text; the tokenizer and the list swap their input
/// buffers on every call, so the text meets a buffer that held the text analysed two calls earlier); failures of the
/// warm-up calls are ignored, they are part of the history
pub fn analyse_after(dic: &sudachi::dic::dictionary::JapaneseDictionary, warm: &[String], text: &str, mode: sudachi::analysis::Mode) -> Result<Result<Analysed, String>, String> {
    analyse_with(dic, warm, text, mode, None)
}

/// the same with a restricted word-info field subset (`set_subset`) installed after creation
pub fn analyse_with(dic: &sudachi::dic::dictionary::JapaneseDictionary, warm: &[String], text: &str, mode: sudachi::analysis::Mode, subset: Option<sudachi::dic::subset::InfoSubset>) -> Result<Result<Analysed, String>, String> {
    catch(|| {
        let mut tok = StatefulTokenizer::new(dic, mode);
        if let Some(s) = subset { tok.set_subset(s); }
        let mut ml = MorphemeList::empty(dic);
        for wt in warm {
            tok.reset().push_str(wt);
            if tok.do_tokenize().is_ok() {
                let _ = ml.collect_results(&mut tok);
            }
        }
        tok.reset().push_str(text);
        if let Err(e) = tok.do_tokenize() {
            return Err(err_class(&e));
        }
        let tables = tok.verif_input().verif_tables();
        if let Err(e) = ml.collect_results(&mut tok) {
            return Err(err_class(&e));
        }
        let whole = ml.surface();
        let base = whole.as_ptr() as usize;
        let mut morphs = vec![];
        for m in ml.iter() {
            let s = m.surface();
            let off = (s.as_ptr() as usize).wrapping_sub(base);
            morphs.push((m.begin(), m.end(), s.to_string(), m.begin_c(), m.end_c(), off, m.verif_node_range()));
        }
        drop(whole);
        let toks = toks_of(&ml);
        Ok(Analysed { tables, morphs, toks })
    })
}

/// the partition oracle of C01 on the implementation's output
pub fn partition_oracle(text: &str, a: &Analysed) -> Option<(String, String)> {
    let ms = &a.morphs;
    if ms.is_empty() {
        if !a.tables.modified.is_empty() {
            return Some(("empty".into(), "no morphemes although the normalised text is not empty".into()));
        }
        return None;
    }
    if a.tables.modified.is_empty() {
        return Some(("nonempty".into(), "morphemes reported for an empty normalised text".into()));
    }
    if ms[0].0 != 0 { return Some(("first".into(), format!("first morpheme begins at {}", ms[0].0))); }
    let mut concat = String::new();
    for (i, m) in ms.iter().enumerate() {
        if m.0 > m.1 { return Some(("order".into(), format!("morpheme {} has begin {} > end {}", i, m.0, m.1))); }
        if i > 0 && ms[i - 1].1 != m.0 { return Some(("abut".into(), format!("morpheme {} begins at {} but the previous one ended at {}", i, m.0, ms[i - 1].1))); }
        if m.1 > text.len() || !text.is_char_boundary(m.0) || !text.is_char_boundary(m.1) {
            return Some(("boundary".into(), format!("morpheme {} range {}..{} is not on character boundaries of the input", i, m.0, m.1)));
        }
        if &text[m.0..m.1] != m.2 { return Some(("surface".into(), format!("morpheme {} surface {:?} != input[{}..{}] {:?}", i, m.2, m.0, m.1, &text[m.0..m.1]))); }
        concat.push_str(&m.2);
    }
    if ms[ms.len() - 1].1 != text.len() { return Some(("last".into(), format!("last morpheme ends at {} of {}", ms[ms.len() - 1].1, text.len()))); }
    if concat != text { return Some(("concat".into(), "concatenated surfaces differ from the input".into())); }
    None
}

pub fn run(run: &mut Run) {
    run.rule = "random worlds (lexicon with prefix families/homographs/splits, random matrix, random input-text, OOV and \
path-rewrite plugin stacks, 0-2 user dictionaries) x random texts over word characters and normalisation/OOV-relevant \
characters x modes A/B/C x history (a new tokenizer, or one that analysed 1-4 other texts of other lengths before); non-trivial = accepted, at least 2 morphemes and the normalised text differs from the input or a \
morpheme comes from a split/merge; distinct by line".into();
    let n = run.opts.count;
    let opts = WorldOpts::default();
    let mut cur_world: Option<(usize, Result<World, String>)> = None;
    for idx in 0..n {
        if !run.wants(idx) { continue; }
        let widx = idx / CASES_PER_WORLD;
        if cur_world.as_ref().map(|w| w.0) != Some(widx) {
            cur_world = None; // drop the previous work directory first
            cur_world = Some((widx, world_for(run.opts.seed, &run.prop.clone(), widx, &opts)));
        }
        let w = match &cur_world.as_ref().unwrap().1 {
            Ok(w) => w,
            Err(e) => {
                run.bump(&format!("world-error:{}", e.chars().take(50).collect::<String>()));
                continue;
            }
        };
        let mut rng = Rng::for_case(run.opts.seed, idx);
        let text = match idx % CASES_PER_WORLD {
            0 => String::new(),
            1 => "㍿(かぶ)12,345ァアー".to_string(),
            _ => gen_text(&mut rng, w, 14),
        };
        let mode = mode_of(rng.below(3));
        for d in &w.desc { run.bump(d); }
        // two cases in three run on a tokenizer + result list with a history of 1..4 earlier texts of other lengths
        let mut warm: Vec<String> = vec![];
        if idx % 3 != 0 {
            for _ in 0..1 + rng.below(4) {
                warm.push(match rng.below(4) { 0 => "ＡＢＣ１２３".to_string(), 1 => gen_text(&mut rng, w, 30), 2 => gen_text(&mut rng, w, 4), _ => gen_text(&mut rng, w, 14) });
            }
        }
        run.bump(&format!("history:{}-earlier-texts", warm.len()));
        match analyse_after(&w.dic, &warm, &text, mode) {
            Err(p) => {
                run.bump("outcome:panic");
                run.bump(&format!("panic:{}", p.chars().take(60).collect::<String>()));
            }
            Ok(Err(e)) => run.bump(&format!("outcome:err:{}", e)),
            Ok(Ok(a)) => {
                run.bump("outcome:ok");
                run.bump(&format!("morphemes:{}", a.morphs.len().min(12)));
                let changed = a.tables.modified != text;
                if changed { run.bump("normalisation-changed-text"); }
                let payload = format!(
                    "orig={} cur={} m2o={} nodes={}",
                    hex(text.as_bytes()), hex(a.tables.modified.as_bytes()), join(a.tables.m2o.iter(), ","),
                    a.morphs.iter().map(|m| format!("{}:{}:{}:{}", m.6 .0, m.6 .1, m.6 .2, m.6 .3)).collect::<Vec<_>>().join(";")
                );
                let ans = format!(
                    "ok rc={} rb={} surf={}",
                    a.morphs.iter().map(|m| format!("{}:{}", m.0, m.1)).collect::<Vec<_>>().join(","),
                    a.morphs.iter().map(|m| format!("{}:{}", m.5, m.5 + m.2.len())).collect::<Vec<_>>().join(","),
                    hex(a.morphs.iter().map(|m| m.2.clone()).collect::<String>().as_bytes())
                );
                run.case(idx, "morph", &payload, &ans, a.morphs.len() >= 2 && changed);
                if let Some((k, what)) = partition_oracle(&text, &a) {
                    run.fail(idx, &format!("c01:{}", k), &format!("{} | text={:?} mode={:?} earlier texts on the same tokenizer={:?} world={}", what, text, mode, warm, w.desc.join(" ")));
                }
            }
        }
    }
}
