#!/bin/bash
# runs every claimed check once (quick tier) and prints its verdict line
cd "$(dirname "$0")"
export RUST_BACKTRACE=0
for P in $(python3 -c "import json;print(' '.join(c['property_id'] for c in json.load(open('MANIFEST.json'))['checks']))"); do
  s=$(date +%s); out=$(timeout 2400 ./check $P --tier ${1:-quick} 2>&1); rc=$?; e=$(date +%s)
  echo "rc=$rc $(echo "$out" | grep -E "^C[0-9]+ tier" | cut -c1-150) [$((e-s))s] $(echo "$out" | grep -c KNOWN-FINDING) known $(echo "$out" | grep VIOLATION | cut -c1-120)"
done
